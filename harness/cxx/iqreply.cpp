// C08 harness: measures, on the real QXmppClient, what happens to every incoming-IQ cell
//   (entry x type x from x id x payload)  for every bundled manager alone, the default set, and all managers together,
// by injecting the stanza through QXmppOutgoingClient::handlePacketReceived (the slot the socket's
// stanzaReceived signal is connected to) resp. QXmppClient::injectIq (decrypted IQs), and reading the IQ
// replies off the logger's SentMessage records.
//   C lines: the Lean model (qxdriver_c08) must predict who decided, how many replies, their kind/to/id, and a disconnect.
//   O lines: the property itself, independent of the model: get/set => exactly one result|error reply to the
//            sender with the same id; result/error => no reply.
#include "common.h"

#include "QXmppAccountMigrationManager.h"
#include "QXmppArchiveManager.h"
#include "QXmppAtmManager.h"
#include "QXmppAtmTrustMemoryStorage.h"
#include "QXmppAttentionManager.h"
#include "QXmppBlockingManager.h"
#include "QXmppBookmarkManager.h"
#include "QXmppBookmarkSet.h"
#include "QXmppCallInviteManager.h"
#include "QXmppCarbonManager.h"
#include "QXmppCarbonManagerV2.h"
#include "QXmppClient.h"
#include "QXmppClientExtension.h"
#include "QXmppClient_p.h"
#include "QXmppConfiguration.h"
#include "QXmppDiscoveryManager.h"
#include "QXmppE2eeMetadata.h"
#include "QXmppEntityTimeManager.h"
#include "QXmppExternalServiceDiscoveryManager.h"
#include "QXmppFileSharingManager.h"
#include "QXmppHttpUploadManager.h"
#include "QXmppIq.h"
#include "QXmppIqHandling.h"
#include "QXmppPromise.h"
#include "QXmppJingleMessageInitiationManager.h"
#include "QXmppLogger.h"
#include "QXmppMamManager.h"
#include "QXmppMessageReceiptManager.h"
#include "QXmppMixManager.h"
#include "QXmppMovedManager.h"
#include "QXmppMucManager.h"
#include "QXmppOutgoingClient.h"
#include "QXmppOutgoingClient_p.h"
#include "QXmppPubSubManager.h"
#include "QXmppRegistrationManager.h"
#include "QXmppRosterManager.h"
#include "QXmppRpcManager.h"
#include "QXmppTransferManager.h"
#include "QXmppUploadRequestManager.h"
#include "QXmppUserLocationManager.h"
#include "QXmppUserTuneManager.h"
#include "QXmppVCardManager.h"
#include "QXmppVersionManager.h"

#include "QXmppE2eeExtension.h"
#include "QXmppElement.h"
#include "QXmppFutureUtils_p.h"
#include "QXmppSaslManager_p.h"

#include <QBuffer>
#include <QPointer>
#include <QCoreApplication>
#include <QDomDocument>
#include <QXmlStreamWriter>
#include <QSslSocket>
#include <QTcpServer>
#include <QTcpSocket>
#include <sys/wait.h>
#include <unistd.h>

#include <algorithm>
#include <functional>
#include <memory>
#include <set>

using namespace vh;
using std::string;
using std::vector;

static const char *OWN_BARE = "me@example.org";
static const char *OWN_FULL = "me@example.org/home";
static const char *OTHER_FULL = "juliet@example.net/balcony";

static const char *NS_E2EE = "urn:example:e2ee";
class TestClient;

// A stand-in for an end-to-end encryption manager (OMEMO is not built here). "Encryption" is hex: an encrypted IQ is
//   <iq type from id><encrypted xmlns='urn:example:e2ee'>HEX(children)</encrypted></iq>
// Like QXmppOmemoManager it is a client extension that claims encrypted IQs, decrypts them and hands them to
// QXmppClient::injectIq with e2ee metadata; QXmppClient::reply() then sends the answer through encryptIq().
class DummyE2ee : public QXmppClientExtension, public QXmppE2eeExtension
{
public:
    explicit DummyE2ee(TestClient *c) : c(c) { }
    bool handleStanza(const QDomElement &el, const std::optional<QXmppE2eeMetadata> &meta) override;
    QXmppTask<MessageEncryptResult> encryptMessage(QXmppMessage &&, const std::optional<QXmppSendStanzaParams> &) override
    {
        return QXmpp::Private::makeReadyTask(MessageEncryptResult(QXmppError { QStringLiteral("not supported"), {} }));
    }
    QXmppTask<MessageDecryptResult> decryptMessage(QXmppMessage &&) override
    {
        return QXmpp::Private::makeReadyTask(MessageDecryptResult(NotEncrypted {}));
    }
    QXmppTask<IqEncryptResult> encryptIq(QXmppIq &&iq, const std::optional<QXmppSendStanzaParams> &) override
    {
        QByteArray xml;
        QXmlStreamWriter w(&xml);
        iq.toXml(&w);
        QDomDocument doc;
        doc.setContent(QStringLiteral("<encrypted xmlns='%1'>%2</encrypted>").arg(QString::fromLatin1(NS_E2EE), QString::fromLatin1(xml.toHex())), true);
        auto out = std::make_unique<QXmppIq>(iq.type());
        out->setId(iq.id());
        out->setTo(iq.to());
        out->setFrom(iq.from());
        out->setExtensions({ QXmppElement(doc.documentElement()) });
        encrypted++;
        return QXmpp::Private::makeReadyTask(IqEncryptResult(std::move(out)));
    }
    QXmppTask<IqDecryptResult> decryptIq(const QDomElement &) override
    {
        return QXmpp::Private::makeReadyTask(IqDecryptResult(NotEncrypted {}));
    }
    bool isEncrypted(const QDomElement &) override { return false; }
    bool isEncrypted(const QXmppMessage &) override { return false; }
    TestClient *c;
    int encrypted = 0;
};

// ------------------------------------------------------------------------------------------------ client
// named TestClient: the library declares `friend class TestClient` in QXmppClient / QXmppOutgoingClient
class TestClient : public QXmppClient
{
public:
    DummyE2ee *e2ee = nullptr;
    QStringList sent;
    int errors = 0;
    int reached = -1;  // index of the last probe extension the stanza passed

    TestClient() : QXmppClient()
    {
        qDeleteAll(d->extensions);
        d->extensions.clear();
        // stream management on: packets are kept for resending instead of failing the send task
        d->stream->enableStreamManagement(true);
        logger()->setLoggingType(QXmppLogger::SignalLogging);
        QObject::connect(logger(), &QXmppLogger::message, this, [this](QXmppLogger::MessageType t, const QString &text) {
            if (t == QXmppLogger::SentMessage) sent << text;
        });
        QObject::connect(this, &QXmppClient::errorOccurred, this, [this](const QXmppError &) { errors++; });
        configuration().setJid(QString::fromUtf8(OWN_FULL));
        // "connected": authenticated, session started
        d->stream->d->sessionStarted = true;
        d->stream->d->isAuthenticated = true;
        // the e2ee extension is the first extension and the client's encryption extension
        e2ee = new DummyE2ee(this);
        addExtension(e2ee);
        setEncryptionExtension(e2ee);
    }
    // put the stream into a state before session establishment: a negotiation manager is the listener
    // (or TLS is required and the socket is not encrypted)
    string setNegotiating(unsigned kind)
    {
        auto *sd = d->stream->d.get();
        switch (kind % 6) {
        case 0: configuration().setStreamSecurityMode(QXmppConfiguration::TLSRequired); sd->sessionStarted = false; return "tls-required";
        case 1: sd->setListener<QXmpp::Private::StarttlsManager>(); sd->sessionStarted = false; return "starttls";
        case 2: sd->setListener<QXmpp::Private::SaslManager>(&sd->socket); sd->sessionStarted = false; return "sasl";
        case 3: sd->setListener<QXmpp::Private::Sasl2Manager>(&sd->socket); sd->sessionStarted = false; return "sasl2";
        case 4: sd->setListener<QXmpp::Private::BindManager>(&sd->socket).bindAddress(QStringLiteral("home")); sd->sessionStarted = false; return "bind";
        default: sd->listener = &sd->c2sStreamManager; sd->sessionStarted = false; return "sm-request";
        }
    }
    void closeConnection() { disconnectFromServer(); }
    // really connect the client's socket to a local TCP server (plain TCP, the stream start is sent into it):
    // socket writes succeed, a stream error really closes the stream
    QTcpSocket *connectLoopback()
    {
        static QTcpServer *server = nullptr;
        if (!server) {
            server = new QTcpServer;
            server->listen(QHostAddress::LocalHost, 0);
        }
        if (!server->isListening()) return nullptr;
        auto *sock = d->stream->socket();
        sock->connectToHost(QHostAddress(QHostAddress::LocalHost).toString(), server->serverPort());
        if (!sock->waitForConnected(2000)) return nullptr;
        if (!server->hasPendingConnections() && !server->waitForNewConnection(2000)) return nullptr;
        d->stream->d->sessionStarted = true;
        return server->nextPendingConnection();
    }
    // the entry point of real traffic: XmppSocket::stanzaReceived is connected to this slot
    void recvStream(const QDomElement &el) { d->stream->handlePacketReceived(el); }
    // the entry point of decrypted IQs (called by an e2ee extension after decryption)
    void recvDecrypted(const QDomElement &el) { injectIq(el, QXmppE2eeMetadata()); }
    void resetIds() { QXmppStanza::s_uniqeIdNo = 0; }
};

static QDomElement parseStanza(const QString &xml, QDomDocument &doc);

bool DummyE2ee::handleStanza(const QDomElement &el, const std::optional<QXmppE2eeMetadata> &meta)
{
    if (meta || el.tagName() != QStringLiteral("iq")) return false;
    auto child = el.firstChildElement();
    if (child.tagName() != QStringLiteral("encrypted") || child.namespaceURI() != QString::fromLatin1(NS_E2EE)) return false;
    // "decrypt": same attributes, children restored
    QString xml = QStringLiteral("<iq");
    auto attrs = el.attributes();
    for (int i = 0; i < attrs.count(); i++) {
        auto a = attrs.item(i).toAttr();
        if (a.name().startsWith(QStringLiteral("xmlns"))) continue;
        xml += QLatin1Char(' ') + a.name() + QStringLiteral("='") + a.value().toHtmlEscaped().replace(QLatin1Char('\''), QStringLiteral("&apos;")) + QLatin1Char('\'');
    }
    xml += QLatin1Char('>') + QString::fromUtf8(QByteArray::fromHex(child.text().toLatin1())) + QStringLiteral("</iq>");
    QDomDocument doc;
    c->recvDecrypted(parseStanza(xml, doc));
    return true;
}

// a receiving device that fails (`write` returns -1) or takes only half of a block once `okBytes` have been stored
class BadDevice : public QIODevice
{
public:
    enum Mode { Fail, Short };
    BadDevice(Mode m, qint64 okBytes, QObject *parent) : QIODevice(parent), mode(m), left(okBytes) { }
    bool isSequential() const override { return true; }
protected:
    qint64 readData(char *, qint64) override { return -1; }
    qint64 writeData(const char *, qint64 len) override
    {
        if (len <= left) { left -= len; return len; }
        left = 0;
        return mode == Fail ? -1 : len / 2;
    }
private:
    Mode mode;
    qint64 left;
};

// what the application does with an offered file: decision x receiving device, at once in the fileReceived slot or
// later in the same event turn (the offer is pending in between)
struct TransferPolicy {
    enum Decision { Accept, AcceptUnwritable, Abort } decision = Accept;
    enum Device { Good, Failing, ShortWriting } device = Good;
    qint64 okBytes = 0;
    bool deferred = false;
    vector<QPointer<QXmppTransferJob>> pending;
    void decide(QXmppTransferJob *j) const
    {
        if (decision == Abort) { j->abort(); return; }
        QIODevice *dev;
        if (decision == AcceptUnwritable) dev = new QBuffer(j);  // never opened: isWritable() is false
        else if (device == Good) { dev = new QBuffer(j); dev->open(QIODevice::WriteOnly); }
        else { dev = new BadDevice(device == Failing ? BadDevice::Fail : BadDevice::Short, okBytes, j); dev->open(QIODevice::WriteOnly); }
        j->accept(dev);
    }
    void offered(QXmppTransferJob *j) { if (deferred) pending.push_back(j); else decide(j); }
    void decidePending()
    {
        auto p = pending;
        pending.clear();
        for (auto &j : p) if (j) decide(j);
    }
};

// ------------------------------------------------------------------------------------------------ application extensions
// Extensions as an application would write them, answering through the PUBLIC helper QXmpp::handleIqRequests<>()
// (QXmppIqHandling.h) in every documented way. One IQ class per (what the handler returns) x (how it is handed over);
// the payload is <app-STYLE-VIA xmlns='urn:example:app'/>.
//   STYLE: fresh   = a new IQ object, type left at its default (get)         VIA: direct  = the IQ type itself
//          echo    = the received IQ itself (type get or set), filled in           variant = std::variant<Iq, QXmppStanza::Error>
//          result  = a new IQ explicitly typed result                              task    = QXmppTask<Iq>, already finished
//          erroriq = a new IQ typed error with an <error/>                         later   = QXmppTask<Iq>, finished from the event loop
//          error   = a QXmppStanza::Error (needs a variant)                        taskvar = QXmppTask<std::variant<…>>, finished later
// The three QXmppTask ways are documented ("3. a QXmppTask of 1. or 2.") but do not compile with the header as it is:
// processHandleIqResult(…, QXmppTask<T>) passes the task's value on as an lvalue and no overload takes one
// (fixes/C08-helper-task-result-forwarding.diff moves it). They are compiled in with -DC08_HELPER_TASKS=1 once that is fixed.
#ifndef C08_HELPER_TASKS
#define C08_HELPER_TASKS 0
#endif
static const char *NS_APP = "urn:example:app";
enum AppStyle { Fresh, Echo, Result, ErrorIq, ErrorObj };
enum AppVia { ViaDirect, ViaVariant, ViaTask, ViaLater, ViaTaskVar };
static const char *appStyleName[] = { "fresh", "echo", "result", "erroriq", "error" };
static const char *appViaName[] = { "direct", "variant", "task", "later", "taskvar" };
static string appTag(int st, int via) { return string("app-") + appStyleName[st] + "-" + appViaName[via]; }

template<int St, int Via>
class AppIq : public QXmppIq
{
public:
    QString text;
    static bool checkIqType(const QString &tagName, const QString &xmlns)
    {
        return tagName == QString::fromStdString(appTag(St, Via)) && xmlns == QString::fromLatin1(NS_APP);
    }
protected:
    void parseElementFromChild(const QDomElement &element) override { text = element.firstChildElement().text(); }
    void toXmlElementFromChild(QXmlStreamWriter *writer) const override
    {
        writer->writeStartElement(QString::fromStdString(appTag(St, Via)));
        writer->writeDefaultNamespace(QString::fromLatin1(NS_APP));
        writer->writeCharacters(text);
        writer->writeEndElement();
    }
};

struct AppHandler {
    QObject *context;
    template<int St, int Via>
    auto handleIq(AppIq<St, Via> &&iq)
    {
        using Iq = AppIq<St, Via>;
        using Var = std::variant<Iq, QXmppStanza::Error>;
        using Err = QXmppStanza::Error;
        // the object the application hands back
        auto make = [&]() -> Var {
            if constexpr (St == ErrorObj) {
                return Err(Err::Modify, Err::BadRequest, QStringLiteral("no"));
            } else if constexpr (St == Echo) {
                iq.text = QStringLiteral("stored:") + iq.text;   // fill in the request and hand it back
                iq.setFrom({});                                  // (documented: id, to and type are set by the helper)
                return std::move(iq);
            } else {
                Iq out;
                out.text = QStringLiteral("value");
                if constexpr (St == Result) out.setType(QXmppIq::Result);
                if constexpr (St == ErrorIq) { out.setType(QXmppIq::Error); out.setError(Err(Err::Modify, Err::BadRequest, QStringLiteral("no"))); }
                return out;
            }
        };
        if constexpr (Via == ViaDirect) {
            return std::get<Iq>(make());
        } else if constexpr (Via == ViaVariant) {
            return make();
        }
#if C08_HELPER_TASKS
        else if constexpr (Via == ViaTask) {
            return QXmpp::Private::makeReadyTask(std::get<Iq>(make()));
        } else if constexpr (Via == ViaLater) {
            QXmppPromise<Iq> p;
            auto t = p.task();
            QMetaObject::invokeMethod(context, [p, v = std::get<Iq>(make())]() mutable { p.finish(std::move(v)); }, Qt::QueuedConnection);
            return t;
        } else {
            QXmppPromise<Var> p;
            auto t = p.task();
            QMetaObject::invokeMethod(context, [p, v = make()]() mutable { p.finish(std::move(v)); }, Qt::QueuedConnection);
            return t;
        }
#endif
    }
};

// every (style, via) that exists: a QXmppStanza::Error can only travel in a variant
#if C08_HELPER_TASKS
#define APP_IQS(S) AppIq<S, ViaDirect>, AppIq<S, ViaVariant>, AppIq<S, ViaTask>, AppIq<S, ViaLater>, AppIq<S, ViaTaskVar>
#define APP_ALL APP_IQS(Fresh), APP_IQS(Echo), APP_IQS(Result), APP_IQS(ErrorIq), AppIq<ErrorObj, ViaVariant>, AppIq<ErrorObj, ViaTaskVar>
#else
#define APP_IQS(S) AppIq<S, ViaDirect>, AppIq<S, ViaVariant>
#define APP_ALL APP_IQS(Fresh), APP_IQS(Echo), APP_IQS(Result), APP_IQS(ErrorIq), AppIq<ErrorObj, ViaVariant>
#endif

// new-style extension: passes the e2ee metadata on, handler object with handleIq() overloads
class AppExtension : public QXmppClientExtension
{
public:
    bool handleStanza(const QDomElement &element, const std::optional<QXmppE2eeMetadata> &e2eeMetadata) override
    {
        AppHandler h { this };
        return QXmpp::handleIqRequests<APP_ALL>(element, e2eeMetadata, client(), &h);
    }
};
// old-style extension: the 3-argument helper, a callable as handler
class AppExtensionOld : public QXmppClientExtension
{
public:
    bool handleStanza(const QDomElement &element) override
    {
        AppHandler h { this };
        return QXmpp::handleIqRequests<APP_ALL>(element, client(), [&h](auto &&iq) { return h.handleIq(std::move(iq)); });
    }
};

// a do-nothing extension placed before/between/after the managers: tells which manager consumed a stanza
class Probe : public QXmppClientExtension
{
public:
    Probe(TestClient *c, int i) : c(c), idx(i) { }
    bool handleStanza(const QDomElement &, const std::optional<QXmppE2eeMetadata> &) override
    {
        c->reached = idx;
        return false;
    }
    TestClient *c;
    int idx;
};

// ------------------------------------------------------------------------------------------------ managers
struct MgrDef {
    string key;                                               // name used in op lines / oracle keys
    string cls;                                               // C++ class
    std::function<QXmppClientExtension *(TestClient *)> make;
    vector<string> needs;                                     // must be registered before it
};

static vector<MgrDef> &mgrDefs()
{
    static vector<MgrDef> v = {
        { "archive", "QXmppArchiveManager", [](TestClient *) { return new QXmppArchiveManager; }, {} },
        { "blocking", "QXmppBlockingManager", [](TestClient *) { return new QXmppBlockingManager; }, {} },
        { "blocking+sub", "QXmppBlockingManager", [](TestClient *) { return new QXmppBlockingManager; }, {} },
        { "bookmark", "QXmppBookmarkManager", [](TestClient *) { return new QXmppBookmarkManager; }, {} },
        { "carbon", "QXmppCarbonManager", [](TestClient *) { return new QXmppCarbonManager; }, {} },
        { "carbonV2", "QXmppCarbonManagerV2", [](TestClient *) { return new QXmppCarbonManagerV2; }, {} },
        { "discovery", "QXmppDiscoveryManager", [](TestClient *) { return new QXmppDiscoveryManager; }, {} },
        { "entityTime", "QXmppEntityTimeManager", [](TestClient *) { return new QXmppEntityTimeManager; }, {} },
        { "mam", "QXmppMamManager", [](TestClient *) { return new QXmppMamManager; }, {} },
        { "muc", "QXmppMucManager", [](TestClient *) { return new QXmppMucManager; }, {} },
        { "pubsub", "QXmppPubSubManager", [](TestClient *) { return new QXmppPubSubManager; }, {} },
        { "registration", "QXmppRegistrationManager", [](TestClient *) { return new QXmppRegistrationManager; }, {} },
        { "roster", "QXmppRosterManager", [](TestClient *c) { return new QXmppRosterManager(c); }, {} },
        { "rpc", "QXmppRpcManager", [](TestClient *) { return new QXmppRpcManager; }, {} },
        { "transfer", "QXmppTransferManager", [](TestClient *) { return new QXmppTransferManager; }, {} },
        // the same class in other states (set up in build()): somebody accepts / declines offered files; an incoming
        // in-band job from OTHER_FULL is accepted and waits for <open/>; it has been opened
        { "transfer+accept", "QXmppTransferManager", [](TestClient *) { return new QXmppTransferManager; }, {} },
        { "transfer+decline", "QXmppTransferManager", [](TestClient *) { return new QXmppTransferManager; }, {} },
        { "transfer+job", "QXmppTransferManager", [](TestClient *) { return new QXmppTransferManager; }, {} },
        { "transfer+jobopen", "QXmppTransferManager", [](TestClient *) { return new QXmppTransferManager; }, {} },
        // ... accepted with a device that is not writable; the opened job's device fails / takes half a block; the job has
        // finished because its device failed to store a block
        { "transfer+acceptro", "QXmppTransferManager", [](TestClient *) { return new QXmppTransferManager; }, {} },
        { "transfer+jobopen-fail", "QXmppTransferManager", [](TestClient *) { return new QXmppTransferManager; }, {} },
        { "transfer+jobopen-short", "QXmppTransferManager", [](TestClient *) { return new QXmppTransferManager; }, {} },
        { "transfer+jobfailed", "QXmppTransferManager", [](TestClient *) { return new QXmppTransferManager; }, {} },
        // a room registered under OTHER_FULL that has asked for its permission lists (needs a connected socket)
        { "muc+room", "QXmppMucManager", [](TestClient *) { return new QXmppMucManager; }, {} },
        { "uploadRequest", "QXmppUploadRequestManager", [](TestClient *) { return new QXmppUploadRequestManager; }, {} },
        { "vcard", "QXmppVCardManager", [](TestClient *) { return new QXmppVCardManager; }, {} },
        { "version", "QXmppVersionManager", [](TestClient *) { return new QXmppVersionManager; }, {} },
        // no handleStanza override
        { "accountMigration", "QXmppAccountMigrationManager", [](TestClient *) { return new QXmppAccountMigrationManager; }, {} },
        { "attention", "QXmppAttentionManager", [](TestClient *) { return new QXmppAttentionManager; }, {} },
        { "callInvite", "QXmppCallInviteManager", [](TestClient *) { return new QXmppCallInviteManager; }, {} },
        { "externalService", "QXmppExternalServiceDiscoveryManager", [](TestClient *) { return new QXmppExternalServiceDiscoveryManager; }, {} },
        { "httpUpload", "QXmppHttpUploadManager", [](TestClient *) { return new QXmppHttpUploadManager; }, {} },
        { "jmi", "QXmppJingleMessageInitiationManager", [](TestClient *) { return new QXmppJingleMessageInitiationManager; }, {} },
        { "messageReceipt", "QXmppMessageReceiptManager", [](TestClient *) { return new QXmppMessageReceiptManager; }, {} },
        { "mix", "QXmppMixManager", [](TestClient *) { return new QXmppMixManager; }, { "discovery", "pubsub" } },
        { "moved", "QXmppMovedManager", [](TestClient *) { return new QXmppMovedManager; }, { "discovery", "pubsub" } },
        { "userLocation", "QXmppUserLocationManager", [](TestClient *) { return new QXmppUserLocationManager; }, {} },
        { "userTune", "QXmppUserTuneManager", [](TestClient *) { return new QXmppUserTuneManager; }, {} },
        { "atm", "QXmppAtmManager", [](TestClient *) { return new QXmppAtmManager(new QXmppAtmTrustMemoryStorage); }, {} },
        { "fileSharing", "QXmppFileSharingManager", [](TestClient *) { return new QXmppFileSharingManager; }, {} },
        // not bundled: application-style extensions answering through QXmpp::handleIqRequests<>()
        { "app", "AppExtension", [](TestClient *) { return new AppExtension; }, {} },
        { "app-old", "AppExtensionOld", [](TestClient *) { return new AppExtensionOld; }, {} },
    };
    return v;
}
static string baseKey(const string &k) { auto p = k.find('+'); return p == string::npos ? k : k.substr(0, p); }
static bool needsConnection(const string &k) { return k == "muc+room"; }
static const MgrDef &mgrDef(const string &k)
{
    for (auto &m : mgrDefs()) if (m.key == k) return m;
    fprintf(stderr, "unknown manager %s\n", k.c_str());
    exit(3);
}

// ------------------------------------------------------------------------------------------------ payload catalogue
struct Payload {
    string name;          // unique
    string key;           // coarse class used in oracle keys (e.g. "vCard", "archive-chat")
    string xml;           // children of the <iq/>
    vector<int> flags;    // one per child element: flag + 2*flag2 (meaning: see Kid in the Lean model)
    std::set<string> owners;  // managers whose handler looks at this key (to pick per-manager payload sets)
    std::map<string, string> keyBy;  // payloads claimed by several managers: oracle key per deciding manager
};

struct Variant { string label, attrs, inner; int flag; };
struct KeyDef { string key, tag, ns; vector<string> owners; vector<Variant> vars; };

static const string UNK = "<foo xmlns='urn:example:unknown'/>";
static const string ERRCHILD = "<error type='cancel'><item-not-found xmlns='urn:ietf:params:xml:ns:xmpp-stanzas'/></error>";

static string el(const string &tag, const string &ns, const string &attrs, const string &inner)
{
    string s = "<" + tag + " xmlns='" + ns + "'" + (attrs.empty() ? "" : " " + attrs);
    return inner.empty() ? s + "/>" : s + ">" + inner + "</" + tag + ">";
}

static vector<KeyDef> keyDefs()
{
    const string NS_DI = "http://jabber.org/protocol/disco#info", NS_DT = "http://jabber.org/protocol/disco#items";
    const string NS_AR = "urn:xmpp:archive", NS_IBB = "http://jabber.org/protocol/ibb";
    const string NS_BS = "http://jabber.org/protocol/bytestreams", NS_SI = "http://jabber.org/protocol/si";
    const string FORM = "<x xmlns='jabber:x:data' type='form'><field var='muc#roomconfig_roomname'><value>r</value></field></x>";
    return {
        { "vCard", "vCard", "vcard-temp", { "vcard" }, {
            { "full", "", "<FN>Joe</FN><NICKNAME>j</NICKNAME><BDAY>1990-01-02</BDAY><EMAIL><USERID>j@x.y</USERID></EMAIL>", 0 },
            { "min", "", "", 0 },
            { "bad", "version='9'", "<BDAY>never</BDAY><PHOTO><BINVAL>!!!</BINVAL></PHOTO><vCard/><N/>", 0 } } },
        { "roster", "query", "jabber:iq:roster", { "roster" }, {
            { "full", "ver='v7'", "<item jid='romeo@example.net' name='R' subscription='both'><group>F</group></item>", 0 },
            { "min", "", "", 0 },
            { "remove", "", "<item jid='romeo@example.net' subscription='remove'/>", 0 },
            { "bad", "", "<item/><item jid='' subscription='zzz'><group/></item><query/>", 0 } } },
        { "disco-info", "query", NS_DI, { "discovery", "mix", "moved", "registration", "uploadRequest" }, {
            { "full", "", "<identity category='client' type='pc' name='x'/><feature var='urn:xmpp:ping'/>", 0 },
            { "min", "", "", 0 },
            { "capsnode", "node='https://github.com/qxmpp-project/qxmpp#abc'", "", 0 },
            { "foreignnode", "node='http://other.example/client#xyz'", "", 1 },
            { "bad", "node=''", "<identity/><feature/><x xmlns='jabber:x:data'/>", 0 } } },
        { "disco-items", "query", NS_DT, { "discovery" }, {
            { "full", "", "<item jid='a.example.org' name='n'/>", 0 },
            { "min", "", "", 0 },
            { "foreignnode", "node='some-node'", "", 1 },
            { "bad", "", "<item/><query/>", 0 } } },
        { "version", "query", "jabber:iq:version", { "version" }, {
            { "full", "", "<name>n</name><version>1</version><os>o</os>", 0 },
            { "min", "", "", 0 },
            { "bad", "", "<name><name/></name><bogus/>", 0 } } },
        { "time", "time", "urn:xmpp:time", { "entityTime" }, {
            { "full", "", "<tzo>-06:00</tzo><utc>2006-12-19T17:58:35Z</utc>", 0 },
            { "min", "", "", 0 },
            { "bad", "", "<tzo>zz</tzo><utc>yesterday</utc>", 0 } } },
        { "archive-chat", "chat", NS_AR, { "archive" }, {
            { "full", "with='juliet@example.net' start='1469-07-21T02:56:15Z'", "<from secs='0'><body>hi</body></from>", 1 },
            { "min", "with='x'", "", 1 },
            { "nowith", "", "", 0 },
            { "emptywith", "with=''", "<to secs='1'/>", 0 },
            { "bad", "with='@@' start='never'", "<from/><chat/>", 1 } } },
        { "archive-list", "list", NS_AR, { "archive" }, {
            { "full", "with='juliet@example.net'", "<set xmlns='http://jabber.org/protocol/rsm'><max>30</max></set>", 0 },
            { "min", "", "", 0 },
            { "bad", "start='x'", "<chat/><set/>", 0 } } },
        { "archive-pref", "pref", NS_AR, { "archive" }, {
            { "full", "", "<auto save='true'/><default otr='concede' save='body'/>", 0 },
            { "min", "", "", 0 },
            { "bad", "", "<pref/>", 0 } } },
        { "archive-retrieve", "retrieve", NS_AR, { "archive" }, {
            { "min", "with='juliet@example.net' start='1469-07-21T02:56:15Z'", "", 0 } } },
        { "private-bookmarks", "query", "jabber:iq:private", { "bookmark" }, {
            { "full", "", "<storage xmlns='storage:bookmarks'><conference jid='r@c.example' autojoin='true' name='n'><nick>me</nick></conference><url url='http://x' name='u'/></storage>", 1 },
            { "min", "", "<storage xmlns='storage:bookmarks'/>", 1 },
            { "bad", "", "<storage xmlns='storage:bookmarks'><conference/><url/><storage/></storage>", 1 },
            { "empty", "", "", 0 },
            { "otherstorage", "", "<storage xmlns='storage:rosternotes'/>", 0 },
            { "secondstorage", "", "<foo xmlns='urn:example:unknown'/><storage xmlns='storage:bookmarks'/>", 0 } } },
        { "rpc", "query", "jabber:iq:rpc", { "rpc" }, {
            { "full", "", "<methodCall><methodName>Iface.method</methodName><params><param><value><i4>6</i4></value></param></params></methodCall>", 1 },
            { "min", "", "", 0 },
            { "nodot", "", "<methodCall><methodName>method</methodName></methodCall>", 0 },
            { "twodots", "", "<methodCall><methodName>a.b.c</methodName></methodCall>", 0 },
            { "response", "", "<methodResponse><params><param><value><string>x</string></value></param></params></methodResponse>", 0 },
            { "bad", "", "<methodCall><methodName>x.y</methodName><params><param><value><struct><member/></struct></value></param><param/></params></methodCall>", 1 } } },
        { "mam-fin", "fin", "urn:xmpp:mam:2", { "mam" }, {
            { "full", "complete='true'", "<set xmlns='http://jabber.org/protocol/rsm'><first index='0'>a</first><last>b</last><count>2</count></set>", 0 },
            { "min", "", "", 0 },
            { "bad", "complete='perhaps'", "<set/><fin/>", 0 } } },
        { "mam-query", "query", "urn:xmpp:mam:2", { "mam" }, {
            { "min", "queryid='q1'", "", 0 } } },
        { "block", "block", "urn:xmpp:blocking", { "blocking", "blocking+sub" }, {
            { "full", "", "<item jid='romeo@example.net'/><item jid='spam.example'/>", 0 },
            { "min", "", "", 0 },
            { "bad", "", "<item/><jid>x</jid>", 0 } } },
        { "unblock", "unblock", "urn:xmpp:blocking", { "blocking", "blocking+sub" }, {
            { "full", "", "<item jid='romeo@example.net'/>", 0 },
            { "min", "", "", 0 },
            { "bad", "", "<item/><item jid=''/>", 0 } } },
        { "blocklist", "blocklist", "urn:xmpp:blocking", { "blocking", "blocking+sub" }, {
            { "min", "", "<item jid='romeo@example.net'/>", 0 } } },
        { "upload-request", "request", "urn:xmpp:http:upload:0", { "uploadRequest" }, {
            { "full", "filename='a.png' size='23456' content-type='image/png'", "", 0 },
            { "min", "", "", 0 },
            { "bad", "size='-1' filename=''", "<request/>", 0 } } },
        { "upload-slot", "slot", "urn:xmpp:http:upload:0", { "uploadRequest" }, {
            { "full", "", "<put url='https://u.example/p'><header name='Authorization'>Basic x</header></put><get url='https://u.example/g'/>", 0 },
            { "min", "", "", 0 },
            { "bad", "", "<put/><get url='::'/><put url='http://plain'/>", 0 } } },
        { "register", "query", "jabber:iq:register", { "registration" }, {
            { "full", "", "<instructions>i</instructions><username/><password/>", 0 },
            { "min", "", "", 0 },
            { "remove", "", "<remove/>", 0 },
            { "bad", "", "<x xmlns='jabber:x:data' type='nonsense'><field/></x><query/>", 0 } } },
        { "ibb-open", "open", NS_IBB, { "transfer" }, {
            { "full", "sid='i781hf64' block-size='4096' stanza='iq'", "", 2 },
            { "min", "", "", 2 },
            { "bad", "sid='' block-size='999999999999'", "<open/>", 0 },
            { "job", "sid='jobsid' block-size='4096' stanza='iq'", "", 3 },
            { "jobsmall", "sid='jobsid' block-size='512'", "", 3 },
            { "jobbig", "sid='jobsid' block-size='65536'", "", 1 } } },
        { "ibb-data", "data", NS_IBB, { "transfer" }, {
            { "full", "sid='i781hf64' seq='0'", "qANQR1DBwU4DX7jmYZnncmUQB", 2 },
            { "min", "", "", 2 },
            { "bad", "sid='x' seq='7'", "****", 0 },
            { "job", "sid='jobsid' seq='0'", "qANQR1DBwU4DX7jmYZnncmUQB", 3 },
            { "jobseq", "sid='jobsid' seq='5'", "aGVsbG8=", 1 } } },
        { "ibb-close", "close", NS_IBB, { "transfer" }, {
            { "full", "sid='i781hf64'", "", 0 },
            { "min", "", "", 0 },
            { "bad", "sid=''", "<close/>", 0 },
            { "job", "sid='jobsid'", "", 1 } } },
        { "bytestreams", "query", NS_BS, { "transfer" }, {
            { "full", "sid='vxf9n471bn46' mode='tcp'", "<streamhost jid='juliet@example.net/balcony' host='192.0.2.1' port='5086'/>", 1 },
            { "min", "", "", 0 },
            { "used", "sid='vxf9n471bn46'", "<streamhost-used jid='proxy.example.net'/>", 0 },
            { "bad", "mode='carrier-pigeon'", "<streamhost port='-1'/><query/>", 1 } } },
        { "si", "si", NS_SI, { "transfer" }, {
            { "full", "id='a0' mime-type='text/plain' profile='http://jabber.org/protocol/si/profile/file-transfer'",
              "<file xmlns='http://jabber.org/protocol/si/profile/file-transfer' name='t.txt' size='1022'/>"
              "<feature xmlns='http://jabber.org/protocol/feature-neg'><x xmlns='jabber:x:data' type='form'><field var='stream-method' type='list-single'>"
              "<option><value>http://jabber.org/protocol/bytestreams</value></option><option><value>http://jabber.org/protocol/ibb</value></option></field></x></feature>", 3 },
            { "min", "", "", 0 },
            { "nomethod", "id='a1' profile='http://jabber.org/protocol/si/profile/file-transfer'",
              "<file xmlns='http://jabber.org/protocol/si/profile/file-transfer' name='t.txt' size='1'/>", 1 },
            { "ibbonly", "id='a2' profile='http://jabber.org/protocol/si/profile/file-transfer'",
              "<file xmlns='http://jabber.org/protocol/si/profile/file-transfer' name='u.txt' size='5'/>"
              "<feature xmlns='http://jabber.org/protocol/feature-neg'><x xmlns='jabber:x:data' type='form'><field var='stream-method' type='list-single'>"
              "<option><value>http://jabber.org/protocol/ibb</value></option></field></x></feature>", 3 },
            { "othermethod", "id='a3' profile='http://jabber.org/protocol/si/profile/file-transfer'",
              "<file xmlns='http://jabber.org/protocol/si/profile/file-transfer' name='u.txt' size='5'/>"
              "<feature xmlns='http://jabber.org/protocol/feature-neg'><x xmlns='jabber:x:data' type='form'><field var='stream-method' type='list-single'>"
              "<option><value>urn:example:carrier-pigeon</value></option></field></x></feature>", 1 },
            { "bad", "profile='urn:example:other'", "<si/><feature/>", 0 } } },
        { "muc-admin", "query", "http://jabber.org/protocol/muc#admin", { "muc" }, {
            { "full", "", "<item affiliation='member' jid='hag66@shakespeare.lit' nick='thirdwitch' role='participant'/>", 0 },
            { "min", "", "", 0 },
            { "bad", "", "<item/><item affiliation='emperor'/>", 0 } } },
        { "muc-owner", "query", "http://jabber.org/protocol/muc#owner", { "muc" }, {
            { "full", "", FORM, 1 },
            { "min", "", "", 0 },
            { "bad", "", "<x xmlns='jabber:x:data'/><destroy/>", 0 } } },
        // claimed by nobody in this build
        { "ping", "ping", "urn:xmpp:ping", {}, { { "min", "", "", 0 } } },
        { "jingle", "jingle", "urn:xmpp:jingle:1", {}, { { "min", "action='session-initiate' sid='a73sjjvkla37jfea'", "<content creator='initiator' name='voice'/>", 0 } } },
        { "pubsub", "pubsub", "http://jabber.org/protocol/pubsub", { "pubsub", "mix", "userLocation", "userTune" }, {
            { "min", "", "<items node='urn:xmpp:mix:nodes:info'/>", 0 } } },
        { "carbons-enable", "enable", "urn:xmpp:carbons:2", { "carbon", "carbonV2" }, { { "min", "", "", 0 } } },
        { "extdisco", "services", "urn:xmpp:extdisco:2", { "externalService" }, { { "min", "", "<service host='stun.example' type='stun'/>", 0 } } },
        { "mix-join", "client-join", "urn:xmpp:mix:pam:2", { "mix" }, { { "min", "channel='c@mix.example'", "<join xmlns='urn:xmpp:mix:core:1'/>", 0 } } },
    };
}

static vector<KeyDef> appKeyDefs()
{
    vector<KeyDef> v;
    for (int st = 0; st < 5; st++) for (int via = 0; via < 5; via++) {
        if (st == ErrorObj && via != ViaVariant && via != ViaTaskVar) continue;
        if (!C08_HELPER_TASKS && via >= ViaTask) continue;
        KeyDef k { string("app-") + appStyleName[st], appTag(st, via), NS_APP, { "app", "app-old" }, {} };
        if (st == Echo && via == ViaDirect)  // one key also in all structural shapes
            k.vars = { { "full-direct", "", "<text>hello</text>", 0 }, { "min", "", "", 0 }, { "full", "", "<text>hello</text>", 0 }, { "bad", "x='1'", "<text><text/></text>junk", 0 } };
        else
            k.vars = { { string("min-") + appViaName[via], "", st % 2 ? "<text>t</text>" : "", 0 } };
        v.push_back(k);
    }
    return v;
}

static vector<Payload> buildCatalogue(bool thorough)
{
    vector<Payload> out;
    auto add = [&](string name, string key, string xml, vector<int> flags, const vector<string> &owners) {
        Payload p; p.name = std::move(name); p.key = std::move(key); p.xml = std::move(xml); p.flags = std::move(flags);
        p.owners.insert(owners.begin(), owners.end());
        out.push_back(std::move(p));
    };
    add("none", "none", "", {}, {});
    add("unknown", "unknown", UNK, { 0 }, {});
    add("unknown-nons", "unknown", "<bar/>", { 0 }, {});
    add("unknown-x2", "unknown", UNK + "<baz xmlns='urn:example:unknown2'><query/></baz>", { 0, 0 }, {});
    add("error-only", "unknown", ERRCHILD, { 0 }, {});
    add("text-only", "none", "just some text", {}, {});
    auto keys = keyDefs();
    for (auto &k : appKeyDefs()) keys.push_back(k);
    for (auto &k : keys) {
        const Variant *mn = nullptr, *full = nullptr;
        for (auto &v : k.vars) {
            add(k.key + "." + v.label, k.key, el(k.tag, k.ns, v.attrs, v.inner), { v.flag }, k.owners);
            if (v.label == "min") mn = &v;
            if (v.label == "full") full = &v;
        }
        if (!mn) continue;
        if (!full) full = mn;
        string m = el(k.tag, k.ns, mn->attrs, mn->inner), f = el(k.tag, k.ns, full->attrs, full->inner);
        if (k.owners.empty() || k.vars.size() == 1) continue;  // structural shapes only for handled keys
        add(k.key + ".after", k.key, UNK + m, { 0, mn->flag }, k.owners);
        add(k.key + ".before", k.key, m + UNK, { mn->flag, 0 }, k.owners);
        add(k.key + ".wrongns", k.key, el(k.tag, "urn:example:unknown", full->attrs, full->inner), { full->flag }, k.owners);
        add(k.key + ".wrongtag", k.key, el("zzz", k.ns, full->attrs, full->inner), { full->flag }, k.owners);
        // QDomElement::tagName() is the local name, so a prefixed element is the same (tag, ns) for the handlers
        add(k.key + ".prefixed", k.key, "<p:" + k.tag + " xmlns:p='" + k.ns + "'" + (full->attrs.empty() ? "" : " " + full->attrs) + ">" + full->inner + "</p:" + k.tag + ">", { full->flag }, k.owners);
        add(k.key + ".witherror", k.key, m + ERRCHILD, { mn->flag, 0 }, k.owners);
        add(k.key + ".errorfirst", k.key, ERRCHILD + f, { 0, full->flag }, k.owners);
        add(k.key + ".textfirst", k.key, " x " + f + "\n", { full->flag }, k.owners);
        if (thorough) {
            add(k.key + ".doubled", k.key, m + f, { mn->flag, full->flag }, k.owners);
            add(k.key + ".comment", k.key, "<!-- c -->" + f, { full->flag }, k.owners);
            add(k.key + ".after2", k.key, UNK + UNK + f, { 0, 0, full->flag }, k.owners);
        }
    }
    // claimed by two managers: who is first in the list decides
    auto mixed = [&](string name, string xml, vector<int> flags, std::map<string, string> keyBy) {
        Payload p; p.name = std::move(name); p.key = "mixed"; p.xml = std::move(xml); p.flags = std::move(flags);
        for (auto &kv : keyBy) p.owners.insert(kv.first);
        p.keyBy = std::move(keyBy);
        out.push_back(std::move(p));
    };
    const string CHATW = "<chat xmlns='urn:xmpp:archive' with='x'/>", FIN = "<fin xmlns='urn:xmpp:mam:2'/>";
    const string SI = "<si xmlns='http://jabber.org/protocol/si'/>", RPCQ = "<query xmlns='jabber:iq:rpc'><methodCall><methodName>a.b</methodName></methodCall></query>";
    mixed("mixed.vcard+chat", "<vCard xmlns='vcard-temp'/>" + CHATW, { 0, 1 }, { { "vcard", "vCard" }, { "archive", "archive-chat" } });
    mixed("mixed.version+fin", "<query xmlns='jabber:iq:version'/>" + FIN, { 0, 0 }, { { "version", "version" }, { "mam", "mam-fin" } });
    mixed("mixed.roster+si", "<query xmlns='jabber:iq:roster'/>" + SI, { 0, 0 }, { { "roster", "roster" }, { "transfer", "si" } });
    mixed("mixed.slot+chat+fin", "<slot xmlns='urn:xmpp:http:upload:0'/>" + CHATW + FIN, { 0, 1, 0 },
          { { "uploadRequest", "upload-slot" }, { "archive", "archive-chat" }, { "mam", "mam-fin" } });
    mixed("mixed.time+rpc", "<time xmlns='urn:xmpp:time'/>" + RPCQ, { 0, 1 }, { { "entityTime", "time" }, { "rpc", "rpc" } });
    mixed("mixed.ibbopen+rpc", "<open xmlns='http://jabber.org/protocol/ibb'/>" + RPCQ, { 0, 1 }, { { "transfer", "ibb-open" }, { "rpc", "rpc" } });
    mixed("mixed.register+fin", "<query xmlns='jabber:iq:register'/>" + FIN, { 0, 0 }, { { "registration", "register" }, { "mam", "mam-fin" } });
    return out;
}

// ------------------------------------------------------------------------------------------------ cell dimensions
static const vector<string> TYPES = { "get", "set", "result", "error", "absent", "garbage" };
static const vector<string> FROMS = { "none", "domain", "ownBare", "ownFull", "ownOther", "other", "stranger" };

static string xmlEsc(const string &s)
{
    string o;
    for (char c : s) {
        switch (c) {
        case '&': o += "&amp;"; break;
        case '<': o += "&lt;"; break;
        case '>': o += "&gt;"; break;
        case '\'': o += "&apos;"; break;
        case '"': o += "&quot;"; break;
        default: o += c;
        }
    }
    return o;
}

// attribute spelling for a class; "\x01" = attribute not written at all
static const string NOATTR = "\x01";
static string typeSpelling(const string &cls, Rng &r)
{
    if (cls == "absent") return r.coin() ? NOATTR : "";
    if (cls == "garbage") {
        static const vector<string> g = { "bogus", "GET", "get ", "Result", "sett", " error", "subscribe", "chat" };
        return g[r.below(g.size())];
    }
    return cls;
}
static string fromSpelling(const string &cls, const string &idClass, Rng &r)
{
    if (cls == "none") return r.coin() ? NOATTR : "";
    if (cls == "domain") return "example.org";
    if (cls == "ownBare") return OWN_BARE;
    if (cls == "ownFull") return OWN_FULL;
    if (cls == "ownOther") { static const vector<string> g = { "me@example.org/phone", "me@example.org/home2", "me@example.org/" }; return g[r.below(g.size())]; }
    // other: exactly the foreign JID the client has state with (addressee of the outstanding request, peer of the
    // transfer job, JID of the joined room)
    (void)idClass;
    if (cls == "other") return OTHER_FULL;
    // stranger: any other foreign JID, including the peer's other addresses and look-alikes of the own JID that only a
    // prefix/suffix comparison would accept
    static const vector<string> g = { "juliet@example.net", "juliet@example.net/orchard", "example.net", "me@example.org.evil.example/home",
                                      "xme@example.org/home", "room@conference.example.org/me", "me@example.net" };
    return g[r.below(g.size())];
}

struct Cell {
    char entry;             // 's' stream, 'e' injectIq with metadata, 'x' encrypted on the stream (dummy e2ee extension)
    string type, from, id;  // classes
    const Payload *p;
    bool negotiating = false;  // a negotiation manager is the stream's listener
};

struct Config {
    string name;             // label for statistics
    vector<string> mgrs;     // registration order
    bool sampled = false;    // quick tier: sample the id / entry dimensions also for the managers' own payloads
};

// ------------------------------------------------------------------------------------------------ running
struct Built {
    std::unique_ptr<QTcpSocket> peer;  // server side of the loopback connection (connected mode)
    std::unique_ptr<TestClient> c;
    vector<string> mgrs;
    QXmppRegistrationManager *reg = nullptr;
    QXmppBookmarkManager *bm = nullptr;
    string mucId;  // an id in the joined room's permissionsQueue
    std::shared_ptr<TransferPolicy> transfer;  // what the application does with offered files
};

static QDomElement parseStanza(const QString &xml, QDomDocument &doc)
{
    // same wrapping as XmppSocket::processData: the stanza is a child of the stream element and inherits jabber:client
    QString wrapped = QStringLiteral("<stream:stream xmlns='jabber:client' xmlns:stream='http://etherx.jabber.org/streams' version='1.0'>") + xml +
        QStringLiteral("</stream:stream>");
    QString err;
    if (!doc.setContent(wrapped, true, &err)) {
        fprintf(stderr, "harness bug: stanza does not parse: %s\n%s\n", qPrintable(err), qPrintable(xml));
        exit(3);
    }
    return doc.documentElement().firstChildElement();
}

static string attrOf(const QString &packet, const char *name, bool *present = nullptr)
{
    QDomDocument d;
    d.setContent(packet, true);
    auto e = d.documentElement();
    if (present) *present = e.hasAttribute(QString::fromLatin1(name));
    return e.attribute(QString::fromLatin1(name)).toStdString();
}

// mode: 0 = socket never connected (session flags set), 1 = really connected over loopback TCP,
//       2 = really connected, then disconnected again before the stanza arrives
static Built build(const vector<string> &order, int mode = 0)
{
    Built b;
    b.c = std::make_unique<TestClient>();
    b.mgrs = order;
    TestClient *c = b.c.get();
    bool connected = mode != 0;
    if (connected) {
        b.peer.reset(c->connectLoopback());
        if (!b.peer) { b.c.reset(); return b; }  // no loopback networking here: the caller skips the configuration
    }
    vector<std::function<void()>> after;  // state set-up that needs the complete extension list
    // final extension list: probe0, m0, probe1, m1, ..., probe_n. Registration happens in dependency order,
    // each extension inserted at its final position.
    int n = order.size();
    vector<QXmppClientExtension *> extAt(2 * n + 1, nullptr);
    vector<bool> added(2 * n + 1, false);
    auto insertAt = [&](int pos, QXmppClientExtension *e) {
        int idx = 1;  // index 0 is the e2ee extension installed by TestClient
        for (int i = 0; i < pos; i++) if (added[i]) idx++;
        c->insertExtension(idx, e);
        added[pos] = true; extAt[pos] = e;
    };
    for (int i = 0; i <= n; i++) insertAt(2 * i, new Probe(c, i));
    vector<bool> done(n, false);
    std::function<void(int)> reg = [&](int i) {
        if (done[i]) return;
        done[i] = true;
        for (auto &need : mgrDef(order[i]).needs)
            for (int j = 0; j < n; j++) if (order[j] == need) reg(j);
        auto *e = mgrDef(order[i]).make(c);
        insertAt(2 * i + 1, e);
        if (order[i] == "registration") b.reg = static_cast<QXmppRegistrationManager *>(e);
        if (order[i] == "bookmark") b.bm = static_cast<QXmppBookmarkManager *>(e);
        if (baseKey(order[i]) == "transfer" && order[i] != "transfer") {
            auto *tm = static_cast<QXmppTransferManager *>(e);
            const string k = order[i];
            static unsigned builds = 0;
            auto pol = std::make_shared<TransferPolicy>();
            pol->decision = k == "transfer+decline" ? TransferPolicy::Abort : k == "transfer+acceptro" ? TransferPolicy::AcceptUnwritable : TransferPolicy::Accept;
            pol->device = (k == "transfer+jobopen-fail" || k == "transfer+jobfailed") ? TransferPolicy::Failing :
                k == "transfer+jobopen-short" ? TransferPolicy::ShortWriting : TransferPolicy::Good;
            pol->deferred = (builds++ % 2) == 1;  // every other client keeps the offer pending until the slot has returned
            b.transfer = pol;
            const bool job = k.find("+job") != string::npos;
            if (job) tm->setSupportedMethods(QXmppTransferJob::InBandMethod);
            QObject::connect(tm, &QXmppTransferManager::fileReceived, tm, [pol](QXmppTransferJob *j) { pol->offered(j); });
            if (job) after.push_back([c, k, pol]() {
                // the set-up itself consists of requests: each must get exactly one reply of the expected type
                auto expectOne = [c, &k](const char *what, const char *type) {
                    int n = 0, nOther = 0;
                    string dump;
                    for (auto &pkt : c->sent) {
                        if (!pkt.startsWith(QStringLiteral("<iq"))) continue;
                        dump += pkt.toStdString() + " ";
                        if (pkt.contains(QStringLiteral("type=\"%1\"").arg(QString::fromLatin1(type)))) n++; else nOther++;
                    }
                    if (n == 1 && nOther == 0) { oraclePass()++; return; }
                    static std::set<string> reported;
                    string key = "C08:transfer-setup:" + k + ":" + what;
                    if (reported.insert(key).second)
                        oracleFail(key, string("setting up the state, the ") + what + " request got " + std::to_string(n) + " " + type + " replies and " +
                                   std::to_string(nOther) + " others; sent: " + (dump.empty() ? "(nothing)" : dump));
                };
                auto inject = [c, pol](const string &xml) {
                    QDomDocument d;
                    c->sent.clear();
                    c->recvStream(parseStanza(QString::fromStdString(xml), d));
                    pol->decidePending();
                    QCoreApplication::sendPostedEvents();
                };
                inject(string("<iq type='set' from='") + OTHER_FULL + "' id='offer1'>"
                    "<si xmlns='http://jabber.org/protocol/si' id='jobsid' mime-type='text/plain' profile='http://jabber.org/protocol/si/profile/file-transfer'>"
                    "<file xmlns='http://jabber.org/protocol/si/profile/file-transfer' name='t.txt' size='25'/>"
                    "<feature xmlns='http://jabber.org/protocol/feature-neg'><x xmlns='jabber:x:data' type='form'><field var='stream-method' type='list-single'>"
                    "<option><value>http://jabber.org/protocol/ibb</value></option></field></x></feature></si></iq>");
                expectOne("offer", "result");
                if (k != "transfer+job") {
                    inject(string("<iq type='set' from='") + OTHER_FULL + "' id='open1'>"
                        "<open xmlns='http://jabber.org/protocol/ibb' sid='jobsid' block-size='4096' stanza='iq'/></iq>");
                    expectOne("open", "result");
                }
                if (k == "transfer+jobfailed") {
                    // the device refuses the block: the job terminates itself, the block is acknowledged all the same
                    inject(string("<iq type='set' from='") + OTHER_FULL + "' id='data1'>"
                        "<data xmlns='http://jabber.org/protocol/ibb' sid='jobsid' seq='0'>aGVsbG8=</data></iq>");
                    expectOne("data", "result");
                    QCoreApplication::processEvents();
                }
            });
        }
        if (order[i] == "muc+room") {
            auto *mm = static_cast<QXmppMucManager *>(e);
            after.push_back([c, mm, &b]() {
                auto *room = mm->addRoom(QString::fromUtf8(OTHER_FULL));
                c->sent.clear();
                if (!room->requestPermissions() || c->sent.isEmpty()) { fprintf(stderr, "harness bug: requestPermissions failed (needs a connected socket)\n"); exit(3); }
                b.mucId = attrOf(c->sent.first(), "id");
            });
        }
        if (order[i] == "blocking+sub") {
            auto *bm = static_cast<QXmppBlockingManager *>(e);
            c->sent.clear();
            bm->fetchBlocklist();
            string id = c->sent.isEmpty() ? "" : attrOf(c->sent.first(), "id");
            QDomDocument doc;
            c->recvStream(parseStanza(QString::fromStdString("<iq type='result' id='" + id + "'><blocklist xmlns='urn:xmpp:blocking'><item jid='spam.example'/></blocklist></iq>"), doc));
            if (!bm->isSubscribed()) { fprintf(stderr, "harness bug: blocklist subscription did not work\n"); exit(3); }
        }
    };
    for (int i = 0; i < n; i++) reg(i);
    for (auto &f : after) f();
    if (mode == 2) {
        c->closeConnection();
        QCoreApplication::sendPostedEvents();
        QCoreApplication::processEvents();
        stat("clients_disconnected_before_the_stanza");
    }
    c->sent.clear(); c->errors = 0; c->reached = -1;
    return b;
}

struct FailAgg {
    std::set<string> froms;
    string firstReplay;
    long count = 0;
};
static std::map<string, FailAgg> &fails() { static std::map<string, FailAgg> m; return m; }  // key without from: by:type:child

static long cellsRun = 0;
static bool wantSample = false;

static void runCell(Built &b, const Cell &cell, Rng &rng, bool emitLine = true)
{
    TestClient *c = b.c.get();
    c->resetIds();
    // --- id
    string idAttr;
    if (cell.id == "absent") idAttr = rng.coin() ? NOATTR : "";
    else if (cell.id == "fresh") {
        static const vector<string> g = { "abc123", "qxmpp999", "x&y<\"z'", "1", "ID with space" };
        idAttr = g[rng.below(g.size())];
    } else if (cell.id == "table") {
        c->sent.clear();
        QXmppIq req(QXmppIq::Get);
        req.setTo(QString::fromUtf8(OTHER_FULL));
        c->sendIq(std::move(req));
        idAttr = c->sent.isEmpty() ? "" : attrOf(c->sent.first(), "id");
        if (idAttr.empty()) { fprintf(stderr, "harness bug: no outstanding request id\n"); exit(3); }
    } else if (cell.id == "reg") {
        if (!b.reg) { fprintf(stderr, "harness bug: reg id without registration manager\n"); exit(3); }
        c->sent.clear();
        // (really connected: a result for deleteAccount makes the client log out — presence + stream end, not an IQ
        // reply and not part of the model — so that request kind is only used on the unconnected client)
        switch (rng.below(b.peer ? 2 : 3)) {
        case 0: b.reg->changePassword(QStringLiteral("pw2")); break;
        case 2: b.reg->deleteAccount(); break;
        default: b.reg->sendCachedRegistrationForm(); break;
        }
        idAttr = c->sent.isEmpty() ? "" : attrOf(c->sent.first(), "id");
        if (idAttr.empty()) { fprintf(stderr, "harness bug: no registration request id\n"); exit(3); }
    }
    else if (cell.id == "bm") {
        // QXmppBookmarkManager::setBookmarks records its pending id only when the socket write succeeded
        if (!b.bm || !b.peer) { fprintf(stderr, "harness bug: bm id needs a connected client with the bookmark manager\n"); exit(3); }
        c->sent.clear();
        QXmppBookmarkSet set;
        QXmppBookmarkUrl url; url.setName(QStringLiteral("u")); url.setUrl(QUrl(QStringLiteral("http://x.example/")));
        set.setUrls({ url });
        if (!b.bm->setBookmarks(set)) { fprintf(stderr, "harness bug: setBookmarks failed\n"); exit(3); }
        idAttr = c->sent.isEmpty() ? "" : attrOf(c->sent.first(), "id");
        if (idAttr.empty()) { fprintf(stderr, "harness bug: no bookmark request id\n"); exit(3); }
    }
    else if (cell.id == "muc") {
        if (b.mucId.empty()) { fprintf(stderr, "harness bug: muc id without a joined room\n"); exit(3); }
        idAttr = b.mucId;
    }
    string typeAttr = typeSpelling(cell.type, rng), fromAttr = fromSpelling(cell.from, cell.id, rng);
    string attrs;
    if (typeAttr != NOATTR) attrs += " type='" + xmlEsc(typeAttr) + "'";
    if (fromAttr != NOATTR) attrs += " from='" + xmlEsc(fromAttr) + "'";
    if (idAttr != NOATTR) attrs += " id='" + xmlEsc(idAttr) + "'";
    if (rng.coin()) attrs += string(" to='") + OWN_FULL + "'";
    string plainXml = "<iq" + attrs + ">" + cell.p->xml + "</iq>";
    string xml = plainXml;
    if (cell.entry == 'x')
        xml = "<iq" + attrs + "><encrypted xmlns='" + NS_E2EE + "'>" + hex((const unsigned char *)cell.p->xml.data(), cell.p->xml.size()) + "</encrypted></iq>";
    string reqFrom = fromAttr == NOATTR ? "" : fromAttr, reqId = idAttr == NOATTR ? "" : idAttr;

    QDomDocument doc, plainDoc;
    QDomElement stanza = parseStanza(QString::fromStdString(xml), doc);
    QDomElement plainStanza = parseStanza(QString::fromStdString(plainXml), plainDoc);
    // abstract children, read off the DOM the library gets (for an encrypted stanza: the DOM after decryption)
    string kids;
    size_t nk = 0;
    for (auto k = plainStanza.firstChildElement(); !k.isNull(); k = k.nextSiblingElement(), nk++) {
        string t = k.tagName().toStdString(), n = k.namespaceURI().toStdString();
        if (t.find_first_of(" |;\t") != string::npos || n.find_first_of(" |;\t") != string::npos || nk >= cell.p->flags.size()) {
            fprintf(stderr, "harness bug: payload %s child %zu not describable\n", cell.p->name.c_str(), nk); exit(3);
        }
        if (!kids.empty()) kids += ";";
        kids += t + "|" + n + "|" + std::to_string(cell.p->flags[nk]);
    }
    if (nk != cell.p->flags.size()) { fprintf(stderr, "harness bug: payload %s has %zu children, %zu flags\n", cell.p->name.c_str(), nk, cell.p->flags.size()); exit(3); }
    if (kids.empty()) kids = "-";

    string negKind;
    if (cell.negotiating) { negKind = c->setNegotiating(rng.below(6)); stat("negotiating." + negKind); }
    c->sent.clear(); c->errors = 0; c->reached = -1;
    if (cell.entry == 'e') c->recvDecrypted(stanza); else c->recvStream(stanza);
    if (b.transfer) b.transfer->decidePending();  // the application decides about an offer it kept pending
    QCoreApplication::sendPostedEvents();

    // --- observe
    int n = b.mgrs.size();
    string by;
    if (c->reached < 0) by = cell.entry == 'e' ? "lost" : (c->errors ? "negotiation" : "table");  // never reached the extensions
    else if (c->reached < n) by = b.mgrs[c->reached];       // passed probe i, not probe i+1
    else by = c->errors ? "rejected" : "fallback";
    struct R { string kind, to, id, enc; bool shapeOk; string errType, errCond; };
    vector<R> reps;
    int otherSent = 0;
    string sentDump;
    static const QString NS_STANZAS = QStringLiteral("urn:ietf:params:xml:ns:xmpp-stanzas");
    for (auto &pkt : c->sent) {
        if (pkt == QStringLiteral("<r xmlns=\"urn:xmpp:sm:3\"/>")) continue;
        if (pkt == QStringLiteral("</stream:stream>") && c->errors) continue;  // connected mode: the stream error closes the stream
        sentDump += pkt.toStdString() + " ";
        QDomDocument d, inner;
        if (!d.setContent(pkt, true)) { otherSent++; continue; }
        auto e = d.documentElement();
        string ty = e.attribute(QStringLiteral("type")).toStdString();
        if (e.tagName() != QStringLiteral("iq") || (ty != "result" && ty != "error")) { otherSent++; continue; }
        R r;
        r.enc = "plain";
        bool wrapperOk = true;
        auto encEl = e.firstChildElement();
        if (encEl.tagName() == QStringLiteral("encrypted") && encEl.namespaceURI() == QString::fromLatin1(NS_E2EE)) {
            // sent through the e2ee extension: look at what was encrypted; the wrapper must carry the same routing
            r.enc = "enc";
            if (!inner.setContent(QString::fromUtf8(QByteArray::fromHex(encEl.text().toLatin1())), true)) { otherSent++; continue; }
            auto ie = inner.documentElement();
            wrapperOk = ie.attribute(QStringLiteral("to")) == e.attribute(QStringLiteral("to")) && ie.attribute(QStringLiteral("id")) == e.attribute(QStringLiteral("id")) &&
                ie.attribute(QStringLiteral("type")) == e.attribute(QStringLiteral("type"));
            e = ie;
        }
        string to = e.attribute(QStringLiteral("to")).toStdString(), id = e.attribute(QStringLiteral("id")).toStdString();
        string rfrom = e.attribute(QStringLiteral("from")).toStdString();
        r.to = !wrapperOk ? "wrong" : to == reqFrom ? "sender" : (to.empty() ? "none" : "wrong");
        r.id = id == reqId ? "same" : "differs";
        // the <error/> element: RFC 6120 8.3.2 — exactly one, with a type and exactly one defined condition
        int nErr = 0, nCond = 0;
        for (auto ch = e.firstChildElement(); !ch.isNull(); ch = ch.nextSiblingElement()) {
            if (ch.tagName() != QStringLiteral("error")) continue;
            nErr++;
            r.errType = ch.attribute(QStringLiteral("type")).toStdString();
            for (auto cc = ch.firstChildElement(); !cc.isNull(); cc = cc.nextSiblingElement())
                if (cc.namespaceURI() == NS_STANZAS && cc.tagName() != QStringLiteral("text")) { nCond++; r.errCond = cc.tagName().toStdString(); }
        }
        static const std::set<string> errTypes = { "auth", "cancel", "continue", "modify", "wait" };
        if (ty == "error") {
            r.kind = "error:" + (r.errType.empty() ? string("-") : r.errType) + ":" + (r.errCond.empty() ? string("-") : r.errCond);
            r.shapeOk = nErr == 1 && nCond == 1 && errTypes.count(r.errType);
        } else {
            r.kind = "result";
            // a result that carries an <error/> (an application handing back a request that itself contained one) is odd
            // but not against the property: counted, not failed
            r.shapeOk = true;
            if (nErr) stat("result_replies_carrying_an_error_child");
        }
        // a reply must not claim to come from somebody else
        if (!rfrom.empty() && rfrom != OWN_FULL) r.shapeOk = false;
        reps.push_back(r);
    }
    string rs;
    for (auto &r : reps) { if (!rs.empty()) rs += ","; rs += r.kind + "/" + r.to + "/" + r.id + "/" + r.enc; }
    if (rs.empty()) rs = "-";
    string obs = "by=" + by + " n=" + std::to_string(reps.size()) + " r=" + rs + " disc=" + (c->errors ? "1" : "0");
    if (otherSent) obs += " x=" + std::to_string(otherSent);   // the model never predicts other traffic
    string op = string("iq ") + cell.entry + " " + (cell.negotiating ? "N" : "S") + " " + cell.type + " " + cell.from + " " + cell.id + " " + kids;
    if (emitLine) corr(op, obs);
    if (wantSample) sample(xml + "  =>  " + obs + "   [model op: " + op + "]");
    cellsRun++;
    stat("cells");
    stat("decided_by." + by);
    stat("type." + cell.type);
    stat(string("entry.") + cell.entry);

    // --- oracle: the property text, evaluated on what was sent
    bool req = cell.type == "get" || cell.type == "set", resp = cell.type == "result" || cell.type == "error";
    if (cell.negotiating) {
        // not a connected client: the property does not apply; whatever happens, nothing may be answered
        if (reps.empty()) { oraclePass()++; stat("oracle_before_session_silent"); return; }
        req = false; resp = true;
    }
    if (!req && !resp) { stat("oracle_not_applicable"); return; }
    bool ok;
    string why;
    if (req) {
        bool toOk = false;
        if (reps.size() == 1) {
            // no `to` reaches the requester only if the requester is the account's own server
            toOk = reps[0].to == "sender" || (reps[0].to == "none" && (cell.from == "none" || cell.from == "ownBare" || cell.from == "domain"));
        }
        ok = reps.size() == 1 && toOk && reps[0].id == "same" && reps[0].shapeOk;
        if (!ok) why = reps.empty() ? "no reply" : reps.size() > 1 ? "several replies" : !toOk ? "reply not addressed to the sender" :
            reps[0].id != "same" ? "reply id differs" : "reply malformed (error element / from)";
        if (ok && by == "fallback") {
            // nothing handles it: the property names the error — feature-not-implemented or service-unavailable (cancel);
            // a request that arrived encrypted is answered encrypted
            bool condOk = reps[0].errType == "cancel" && (reps[0].errCond == "feature-not-implemented" || reps[0].errCond == "service-unavailable");
            bool encOk = cell.entry == 's' || reps[0].enc == "enc";
            if (!condOk) { ok = false; why = "unhandled request answered with " + reps[0].kind; }
            else if (!encOk) { ok = false; why = "decrypted request answered in the clear"; }
        }
    } else {
        ok = reps.empty();
        if (!ok) why = cell.negotiating ? "answered before the session was established" : "a response was answered";
    }
    if (ok) { oraclePass()++; return; }
    string child = cell.p->key;
    auto kb = cell.p->keyBy.find(baseKey(by));
    if (kb != cell.p->keyBy.end()) child = kb->second;
    if (cell.id == "reg" && by == "registration") child = "pending-registration-id";
    if (cell.id == "bm" && by == "bookmark") child = "pending-bookmark-id";
    string k = by + ":" + cell.type + ":" + child;
    auto &agg = fails()[k];
    agg.count++;
    agg.froms.insert(cell.from);
    if (agg.firstReplay.empty()) agg.firstReplay = why + "; extensions=[" + [&] { string s; for (auto &m : b.mgrs) s += (s.empty() ? "" : ",") + m; return s; }() +
        "] entry=" + (cell.entry == 'e' ? "injectIq" : cell.entry == 'x' ? "stream, encrypted" : "stream") + (cell.negotiating ? " during " + negKind : string()) +
        " received: " + xml + " sent: " + (sentDump.empty() ? "(nothing)" : sentDump);
}

static bool owns(const std::set<string> &baseMgrs, const Payload &p)
{
    for (auto &o : p.owners) if (baseMgrs.count(baseKey(o))) return true;
    return false;
}

static vector<const Payload *> payloadsFor(const vector<Payload> &cat, const Config &cfg, bool full)
{
    vector<const Payload *> v;
    std::set<string> ms;
    for (auto &m : cfg.mgrs) ms.insert(baseKey(m));
    // a manager alone in a non-initial state ("transfer+job", "muc+room", ...): its own payloads and a few others;
    // the foreign payloads were already run against the same class in its initial state
    bool variantAlone = cfg.mgrs.size() == 1 && cfg.mgrs[0].find('+') != string::npos;
    for (auto &p : cat) {
        bool foreignSample = !variantAlone && p.name.size() > 4 && p.name.substr(p.name.size() - 4) == ".min";
        bool basic = p.owners.empty() && (!variantAlone || p.name == "none" || p.name == "unknown" || p.name == "error-only");
        if (full || owns(ms, p) || basic || foreignSample) v.push_back(&p);
    }
    return v;
}

// mode: see build()
static void runConfig(const Config &cfg, const vector<Payload> &cat, bool fullCatalogue, bool thorough, Rng &rng, int freshEvery, int mode = 0)
{
    string l;
    for (auto &m : cfg.mgrs) { l += (l.empty() ? "" : ",") + m; if (needsConnection(m) && mode == 0) mode = 1; }
    if (mode != 0 && !build(cfg.mgrs, mode).c) {
        // environment without loopback TCP: the really-connected runs are skipped and said so in the evidence
        stat("configs_skipped_no_loopback");
        return;
    }
    printf("I config %s [%s]\n", cfg.name.c_str(), l.c_str());
    fflush(stdout);
    corr("reset " + (l.empty() ? string("-") : l), "ok");
    auto has = [&](const char *k) { return std::find(cfg.mgrs.begin(), cfg.mgrs.end(), k) != cfg.mgrs.end(); };
    bool hasReg = has("registration");
    bool hasBm = mode == 1 && has("bookmark");
    bool hasRoom = has("muc+room");
    auto pls = payloadsFor(cat, cfg, fullCatalogue);
    Built b = build(cfg.mgrs, mode);
    int sinceFresh = 0;
    // quick tier, whole catalogue: the id and entry dimensions are sampled
    const bool variantAlone = cfg.mgrs.size() == 1 && cfg.mgrs[0].find('+') != string::npos;
    const bool sparse = !thorough && (fullCatalogue || cfg.sampled);
    for (auto &m : cfg.mgrs) if (m.find("+job") != string::npos) freshEvery = 1;  // a job changes with every accepted block
    std::set<string> ms;
    for (auto &m : cfg.mgrs) ms.insert(baseKey(m));
    static const std::set<string> idProbes = { "unknown", "none", "vCard.min" };
    for (auto *p : pls) {
        bool own = owns(ms, *p);
        for (auto &type : TYPES) {
            for (auto &from : FROMS) {
                vector<string> ids = { "fresh" };
                // own payloads get the full id dimension; others a seeded choice in the quick tier
                // structural shapes (.after, .prefixed, ...) of a manager in a non-initial state are sampled as well
                static const std::set<string> shapes = { "after", "before", "wrongns", "wrongtag", "prefixed", "witherror", "errorfirst", "textfirst" };
                const bool shape = shapes.count(p->name.substr(p->name.rfind('.') == string::npos ? 0 : p->name.rfind('.') + 1)) > 0;
                const bool dense = thorough || ((own || p->owners.empty()) && !sparse && !(variantAlone && shape));
                if (dense || rng.below(4) == 0) ids.push_back("absent");
                // (after a disconnect a new request fails at once, there is no outstanding id)
                if (mode != 2 && (type == "result" || type == "error" || dense)) {
                    if (thorough || ((from == "none" || from == "other") && !sparse) || rng.below(4) == 0) ids.push_back("table");
                }
                if (hasReg && (idProbes.count(p->name) || p->name == "register.min")) ids.push_back("reg");
                if (hasBm && (idProbes.count(p->name) || p->name == "private-bookmarks.min")) ids.push_back("bm");
                if (hasRoom && (idProbes.count(p->name) || p->key == "muc-admin" || p->key == "muc-owner")) ids.push_back("muc");
                // a few payloads are also sent while the stream is still negotiating
                bool negProbe = p->name == "none" || p->name == "unknown" || p->name == "version.min" || p->name == "roster.min" || p->name == "vCard.full";
                for (auto &id : ids) {
                    for (char entry : { 's', 'e', 'x' }) {
                        if (entry != 's' && !dense && rng.below(3)) continue;
                        for (int neg = 0; neg < 2; neg++) {
                            if (neg && (!negProbe || entry == 'e' || (id != "fresh" && id != "table") || mode == 2)) continue;
                            bool stateful = neg || id == "table" || id == "reg" || id == "bm" || id == "muc";
                            if (stateful || sinceFresh >= freshEvery) { b = Built(); b = build(cfg.mgrs, mode); sinceFresh = 0; }
                            Cell cell { entry, type, from, id, p, neg == 1 };
                            runCell(b, cell, rng);
                            sinceFresh++;
                            if (stateful) { b = Built(); b = build(cfg.mgrs, mode); sinceFresh = 0; }
                        }
                    }
                }
            }
        }
    }
    stat("configs");
    if (mode == 1) stat("configs_really_connected");
    if (mode == 2) stat("configs_after_disconnect");
}

// Whole incoming in-band transfers, every request counted by id (oracle only; the states they pass through are the
// configurations "transfer+…" above): SI offer -> <open/> -> three <data/> -> <close/> -> a late <data/> -> an <open/> for
// an unknown session, for every decision (accept writable / accept unwritable / abort), taken in the slot or after it
// returned, and every receiving device (good / fails on the 2nd block / takes half of the 2nd block).
// The abort scenarios are the witness of the crash repaired by repo commit 31a1bb4 (declined job re-opened by the peer's
// <open/>, next <data/> wrote to a null device): kept, key C08:transfer-seq:abort:crash — they must run through with
// exactly one reply per request.
static void runTransferSequences()
{
    struct Step { const char *name; string id; string xml; };
    const string from = OTHER_FULL;
    auto iq = [&](const string &id, const string &child) { return "<iq type='set' from='" + from + "' id='" + id + "'>" + child + "</iq>"; };
    const vector<Step> steps = {
        { "offer", "seq-o1", iq("seq-o1", "<si xmlns='http://jabber.org/protocol/si' id='seqsid' mime-type='text/plain' profile='http://jabber.org/protocol/si/profile/file-transfer'>"
            "<file xmlns='http://jabber.org/protocol/si/profile/file-transfer' name='t.txt' size='15'/>"
            "<feature xmlns='http://jabber.org/protocol/feature-neg'><x xmlns='jabber:x:data' type='form'><field var='stream-method' type='list-single'>"
            "<option><value>http://jabber.org/protocol/ibb</value></option></field></x></feature></si>") },
        { "open", "seq-p1", iq("seq-p1", "<open xmlns='http://jabber.org/protocol/ibb' sid='seqsid' block-size='4096' stanza='iq'/>") },
        { "data0", "seq-d0", iq("seq-d0", "<data xmlns='http://jabber.org/protocol/ibb' sid='seqsid' seq='0'>aGVsbG8=</data>") },
        { "data1", "seq-d1", iq("seq-d1", "<data xmlns='http://jabber.org/protocol/ibb' sid='seqsid' seq='1'>aGVsbG8=</data>") },
        { "data2", "seq-d2", iq("seq-d2", "<data xmlns='http://jabber.org/protocol/ibb' sid='seqsid' seq='2'>aGVsbG8=</data>") },
        { "close", "seq-c1", iq("seq-c1", "<close xmlns='http://jabber.org/protocol/ibb' sid='seqsid'/>") },
        { "late-data", "seq-d3", iq("seq-d3", "<data xmlns='http://jabber.org/protocol/ibb' sid='seqsid' seq='3'>aGVsbG8=</data>") },
        { "open-unknown", "seq-p2", iq("seq-p2", "<open xmlns='http://jabber.org/protocol/ibb' sid='nosuchsid' block-size='4096'/>") },
    };
    static const char *decN[] = { "accept", "accept-unwritable", "abort" }, *devN[] = { "good", "failing", "short" };
    for (int dec = 0; dec < 3; dec++) for (int deferred = 0; deferred < 2; deferred++) for (int dev = 0; dev < 3; dev++) {
        if (dec != 0 && dev != 0) continue;
        string scenario = string(decN[dec]) + (deferred ? "-later" : "-inslot") + "-" + devN[dev];
        // each scenario runs in a child process: if the library crashes, that is reported as a failure of the step it died in
        int fds[2];
        if (pipe(fds) != 0) { fprintf(stderr, "harness: pipe failed\n"); exit(3); }
        fflush(stdout);
        pid_t pid = fork();
        if (pid < 0) { fprintf(stderr, "harness: fork failed\n"); exit(3); }
        if (pid == 0) {
            close(fds[0]);
            Built b = build({ "transfer" });
            TestClient *c = b.c.get();
            auto *tm = c->findExtension<QXmppTransferManager>();
            tm->setSupportedMethods(QXmppTransferJob::InBandMethod);
            auto pol = std::make_shared<TransferPolicy>();
            pol->decision = TransferPolicy::Decision(dec); pol->device = TransferPolicy::Device(dev); pol->okBytes = 5; pol->deferred = deferred;
            QObject::connect(tm, &QXmppTransferManager::fileReceived, tm, [pol](QXmppTransferJob *j) { pol->offered(j); });
            c->sent.clear();
            for (size_t k = 0; k < steps.size(); k++) {
                char ch = char('0' + k);
                if (write(fds[1], &ch, 1) != 1) _exit(4);
                QDomDocument d;
                c->recvStream(parseStanza(QString::fromStdString(steps[k].xml), d));
                pol->decidePending();
                QCoreApplication::sendPostedEvents();
                QCoreApplication::processEvents();
            }
            string dump;
            std::map<string, int> count;
            for (auto &pkt : c->sent) {
                QDomDocument d;
                if (!d.setContent(pkt, true)) continue;
                auto e = d.documentElement();
                auto ty = e.attribute(QStringLiteral("type"));
                if (e.tagName() != QStringLiteral("iq") || (ty != QStringLiteral("result") && ty != QStringLiteral("error"))) continue;
                count[e.attribute(QStringLiteral("id")).toStdString()]++;
                dump += pkt.toStdString() + " ";
            }
            long long pass = 0;
            for (auto &st : steps) {
                if (count[st.id] == 1) { pass++; continue; }
                string hist;
                for (auto &x : steps) { hist += x.xml + " "; if (&x == &st) break; }
                oracleFail("C08:transfer-seq:" + scenario + ":" + st.name, "request id " + st.id + " got " + std::to_string(count[st.id]) +
                           " replies; application: " + scenario + "; received in order: " + hist + " all replies sent: " + dump);
            }
            printf("O PASS %lld\nS transfer_sequence_requests %zu\n", pass, steps.size());
            fflush(stdout);
            _exit(0);
        }
        close(fds[1]);
        string progress;
        char buf[16];
        ssize_t got;
        while ((got = read(fds[0], buf, sizeof buf)) > 0) progress.append(buf, size_t(got));
        close(fds[0]);
        int status = 0;
        waitpid(pid, &status, 0);
        stat("transfer_sequences");
        if (!(WIFEXITED(status) && WEXITSTATUS(status) == 0)) {
            size_t k = progress.empty() ? 0 : size_t(progress.back() - '0');
            string hist;
            for (size_t x = 0; x <= k && x < steps.size(); x++) hist += steps[x].xml + " ";
            // one key per decision: the timing of the decision and the device do not matter for a crash
            static std::set<string> reported;
            string key = string("C08:transfer-seq:") + decN[dec] + ":crash";
            if (reported.insert(key).second)
                oracleFail(key, string("the client process died (") + (WIFSIGNALED(status) ? "signal " + std::to_string(WTERMSIG(status)) : "exit " + std::to_string(WEXITSTATUS(status))) +
                           ") while handling request '" + (k < steps.size() ? steps[k].name : "?") + "', which therefore got no reply; application: " + scenario +
                           "; received in order: " + hist);
            stat("transfer_sequences_crashed");
        }
    }
}

int main(int argc, char **argv)
{
    QCoreApplication app(argc, argv);
    Args a = parseArgs(argc, argv);
    bool thorough = a.tier == "thorough";
    // vh::Rng(seed) starts at seed*gamma + c and advances by gamma, so consecutive seeds give the same stream shifted by
    // one draw; hash the seed first so that VERIF_SEED=1,2,3 are unrelated runs
    uint64_t mixed = (a.seed + 0x632BE59BD9B4E019ull) * 0xD6E8FEB86659FD93ull;
    mixed ^= mixed >> 32; mixed *= 0xD6E8FEB86659FD93ull; mixed ^= mixed >> 32;
    Rng rng(mixed);
    auto cat = buildCatalogue(thorough);
    stat("payloads", (long long)cat.size());

    vector<string> allKeys;
    for (auto &m : mgrDefs()) if (m.key.find('+') == string::npos) allKeys.push_back(m.key);

    // corpus first: the 37 witness cells that violated the property before repo commits 28afc7a (vCard), 318b7cf
    // (roster), 1833c1a (transfer), 29beb7d (archive), 88fc5c1 (bookmark), daa6e10 (MAM), 7916dee (upload request),
    // e597fe7 (registration), af7bef7 (RPC); each on the smallest configuration that showed it, all sender classes.
    // Their oracle keys are unchanged, so any recurrence is reported as a violation at once.
    {
        auto pl = [&](const char *name) -> const Payload * {
            for (auto &p : cat) if (p.name == name) return &p;
            fprintf(stderr, "harness bug: corpus payload %s missing\n", name); exit(3);
        };
        struct W { vector<string> mgrs; vector<string> types; const char *payload; const char *id; bool connected; };
        const vector<string> DEF = { "roster", "vcard", "version", "entityTime", "discovery" };
        const vector<W> ws = {
            { DEF, { "get", "set" }, "vCard.min", "fresh", false },
            { DEF, { "get", "set" }, "roster.min", "fresh", false },
            { { "roster" }, { "get", "set" }, "roster.full", "fresh", false },
            { { "archive" }, { "get", "set" }, "archive-chat.full", "fresh", false },
            { { "archive" }, { "get", "set" }, "archive-list.full", "fresh", false },
            { { "archive" }, { "get", "set" }, "archive-pref.full", "fresh", false },
            { { "bookmark" }, { "get", "set" }, "private-bookmarks.full", "fresh", false },
            { { "bookmark", "vcard" }, { "get", "set" }, "unknown", "bm", true },
            { { "mam" }, { "get", "set" }, "mam-fin.full", "fresh", false },
            { { "registration" }, { "get", "set" }, "register.full", "fresh", false },
            { { "registration" }, { "get", "set" }, "unknown", "reg", false },
            { { "rpc" }, { "set" }, "rpc.min", "fresh", false },
            { { "rpc" }, { "set" }, "rpc.nodot", "fresh", false },
            { { "transfer" }, { "result", "error" }, "ibb-open.full", "fresh", false },
            { { "transfer" }, { "result", "error" }, "ibb-data.full", "fresh", false },
            { { "transfer" }, { "result", "error" }, "ibb-close.full", "fresh", false },
            { { "transfer" }, { "get" }, "bytestreams.full", "fresh", false },
            { { "transfer" }, { "get" }, "si.full", "fresh", false },
            { { "uploadRequest" }, { "get", "set" }, "upload-request.full", "fresh", false },
            { { "uploadRequest" }, { "get", "set" }, "upload-slot.full", "fresh", false },
        };
        for (auto &w : ws) {
            if (w.connected && !build(w.mgrs, 1).c) { stat("configs_skipped_no_loopback"); continue; }
            string l;
            for (auto &m : w.mgrs) l += (l.empty() ? "" : ",") + m;
            corr("reset " + l, "ok");
            const Payload *p = pl(w.payload);
            for (auto &t : w.types) for (auto &f : FROMS) {
                Built b = build(w.mgrs, w.connected ? 1 : 0);
                wantSample = (f == "stranger" || f == "ownOther") && samplesLeft() > 1;
                Cell cell { 's', t, f, w.id, p };
                runCell(b, cell, rng);
                wantSample = false;
                stat("corpus_cells");
            }
        }
    }

    runTransferSequences();

    int freshEvery = thorough ? 1 : 1;
    // no extensions
    runConfig({ "none", {} }, cat, true, thorough, rng, freshEvery);
    // every manager alone (managers with prerequisites: prerequisites first)
    for (auto &m : mgrDefs()) {
        Config c { "single:" + m.key, {} };
        for (auto &need : m.needs) c.mgrs.push_back(need);
        c.mgrs.push_back(m.key);
        runConfig(c, cat, false, thorough, rng, freshEvery);
    }
    // the default set of QXmppClient
    runConfig({ "default", { "roster", "vcard", "version", "entityTime", "discovery" } }, cat, true, thorough, rng, freshEvery);
    // the same over a really connected socket (loopback TCP): replies are written to the socket, a stream error closes
    // the stream; also the only way to give the bookmark manager an outstanding request id
    runConfig({ "default-connected", { "roster", "vcard", "version", "entityTime", "discovery" } }, cat, thorough, thorough, rng, 1, 1);
    runConfig({ "bookmark-connected", { "bookmark", "vcard" } }, cat, false, thorough, rng, 1, 1);
    runConfig({ "bookmark-connected2", { "vcard", "registration", "bookmark" } }, cat, false, thorough, rng, 1, 1);
    // a room waiting for its permission lists next to the managers that share `query` payloads with it
    runConfig({ "room-connected", { "discovery", "muc+room", "version" }, true }, cat, false, thorough, rng, 1, 1);
    // connected, then disconnected again before the stanza is processed (the code does not look at the connection state)
    runConfig({ "default-after-disconnect", { "roster", "vcard", "version", "entityTime", "discovery" }, true }, cat, false, thorough, rng, 1, 2);
    // stateful transfer manager next to managers that compete for its payloads
    runConfig({ "transfer-job-mixed", { "rpc", "transfer+jobopen", "roster" }, true }, cat, false, thorough, rng, 1);
    // everything together, in several registration orders
    int nperm = thorough ? 6 : 2;  // registration orders: as listed, reversed, then seeded shuffles
    for (int i = 0; i <= nperm; i++) {
        vector<string> order = allKeys;
        if (i == 1) std::reverse(order.begin(), order.end());
        if (i >= 2) for (size_t j = order.size(); j > 1; j--) std::swap(order[j - 1], order[rng.below(j)]);
        // other states of the stateful managers
        if (i % 2) for (auto &k : order) if (k == "blocking") k = "blocking+sub";
        if (i % 3 == 1) for (auto &k : order) if (k == "transfer") k = "transfer+jobopen";
        if (i % 3 == 2) for (auto &k : order) if (k == "transfer") k = i % 2 ? "transfer+acceptro" : "transfer+accept";
        runConfig({ "all#" + std::to_string(i), order }, cat, true, thorough, rng, thorough ? 1 : 50);
    }
    // random small sets in random order
    int nrand = thorough ? 24 : 8;
    for (int i = 0; i < nrand; i++) {
        vector<string> pool = allKeys, order;
        int k = 2 + rng.below(5);
        for (int j = 0; j < k; j++) { size_t x = rng.below(pool.size()); order.push_back(pool[x]); pool.erase(pool.begin() + x); }
        // prerequisites
        for (size_t j = 0; j < order.size(); j++)
            for (auto &need : mgrDef(order[j]).needs)
                if (std::find(order.begin(), order.end(), need) == order.end()) order.push_back(need);
        runConfig({ "random#" + std::to_string(i), order, true }, cat, false, thorough, rng, 1);
    }

    // oracle failures, one line per (deciding manager, type, child class, from); `any` when every sender class fails
    for (auto &kv : fails()) {
        auto &agg = kv.second;
        size_t p1 = kv.first.find(':'), p2 = kv.first.find(':', p1 + 1);
        string by = kv.first.substr(0, p1), type = kv.first.substr(p1 + 1, p2 - p1 - 1), child = kv.first.substr(p2 + 1);
        string rep = agg.firstReplay + " (" + std::to_string(agg.count) + " failing cells)";
        for (auto &ch : rep) if (ch == '\t' || ch == '\n') ch = ' ';
        if (agg.froms.size() == FROMS.size()) oracleFail("C08:" + by + ":" + type + ":" + child + ":any", rep);
        else for (auto &f : agg.froms) oracleFail("C08:" + by + ":" + type + ":" + child + ":" + f, rep);
    }
    // samples for the evidence
    sample("cell = entry(s|e|x) x phase(S|N) x type x from x id x children(tag|ns|flags); e.g. `iq s S get other fresh vCard|vcard-temp|0`");
    stat("managers", (long long)mgrDefs().size());
    finish();
    return 0;
}
