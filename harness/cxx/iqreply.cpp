// C08 harness: measures, on the real QXmppClient, what happens to every incoming-IQ cell
//   (entry x type x from x id x payload)  for every bundled manager alone, the default set, and all managers together,
// by injecting the stanza through QXmppOutgoingClient::handlePacketReceived (the slot the socket's
// stanzaReceived signal is connected to) resp. QXmppClient::injectIq (decrypted IQs), and reading the IQ
// replies off the logger's SentMessage records.
//   C lines: the Lean model (qxdriver_c08) must predict who decided, how many replies, their kind/to/id, and a disconnect.
//   O lines: the property itself, independent of the model: get/set => exactly one result|error reply to the
//            sender with the same id; result/error => no reply.
#include "common.h"

#include "QXmppAccountMigrationManager.h"
#include "QXmppArchiveManager.h"
#include "QXmppAtmManager.h"
#include "QXmppAtmTrustMemoryStorage.h"
#include "QXmppAttentionManager.h"
#include "QXmppBlockingManager.h"
#include "QXmppBookmarkManager.h"
#include "QXmppBookmarkSet.h"
#include "QXmppCallInviteManager.h"
#include "QXmppCarbonManager.h"
#include "QXmppCarbonManagerV2.h"
#include "QXmppClient.h"
#include "QXmppClientExtension.h"
#include "QXmppClient_p.h"
#include "QXmppConfiguration.h"
#include "QXmppDiscoveryManager.h"
#include "QXmppE2eeMetadata.h"
#include "QXmppEntityTimeManager.h"
#include "QXmppExternalServiceDiscoveryManager.h"
#include "QXmppFileSharingManager.h"
#include "QXmppHttpUploadManager.h"
#include "QXmppIq.h"
#include "QXmppJingleMessageInitiationManager.h"
#include "QXmppLogger.h"
#include "QXmppMamManager.h"
#include "QXmppMessageReceiptManager.h"
#include "QXmppMixManager.h"
#include "QXmppMovedManager.h"
#include "QXmppMucManager.h"
#include "QXmppOutgoingClient.h"
#include "QXmppOutgoingClient_p.h"
#include "QXmppPubSubManager.h"
#include "QXmppRegistrationManager.h"
#include "QXmppRosterManager.h"
#include "QXmppRpcManager.h"
#include "QXmppTransferManager.h"
#include "QXmppUploadRequestManager.h"
#include "QXmppUserLocationManager.h"
#include "QXmppUserTuneManager.h"
#include "QXmppVCardManager.h"
#include "QXmppVersionManager.h"

#include <QCoreApplication>
#include <QDomDocument>
#include <QSslSocket>
#include <QTcpServer>
#include <QTcpSocket>
#include <algorithm>
#include <functional>
#include <memory>
#include <set>

using namespace vh;
using std::string;
using std::vector;

static const char *OWN_BARE = "me@example.org";
static const char *OWN_FULL = "me@example.org/home";
static const char *OTHER_FULL = "juliet@example.net/balcony";

// ------------------------------------------------------------------------------------------------ client
// named TestClient: the library declares `friend class TestClient` in QXmppClient / QXmppOutgoingClient
class TestClient : public QXmppClient
{
public:
    QStringList sent;
    int errors = 0;
    int reached = -1;  // index of the last probe extension the stanza passed

    TestClient() : QXmppClient()
    {
        qDeleteAll(d->extensions);
        d->extensions.clear();
        // stream management on: packets are kept for resending instead of failing the send task
        d->stream->enableStreamManagement(true);
        logger()->setLoggingType(QXmppLogger::SignalLogging);
        QObject::connect(logger(), &QXmppLogger::message, this, [this](QXmppLogger::MessageType t, const QString &text) {
            if (t == QXmppLogger::SentMessage) sent << text;
        });
        QObject::connect(this, &QXmppClient::errorOccurred, this, [this](const QXmppError &) { errors++; });
        configuration().setJid(QString::fromUtf8(OWN_FULL));
        // "connected": authenticated, session started
        d->stream->d->sessionStarted = true;
        d->stream->d->isAuthenticated = true;
    }
    // really connect the client's socket to a local TCP server (plain TCP, the stream start is sent into it):
    // socket writes succeed, a stream error really closes the stream
    QTcpSocket *connectLoopback()
    {
        static QTcpServer *server = nullptr;
        if (!server) {
            server = new QTcpServer;
            server->listen(QHostAddress::LocalHost, 0);
        }
        if (!server->isListening()) return nullptr;
        auto *sock = d->stream->socket();
        sock->connectToHost(QHostAddress(QHostAddress::LocalHost).toString(), server->serverPort());
        if (!sock->waitForConnected(2000)) return nullptr;
        if (!server->hasPendingConnections() && !server->waitForNewConnection(2000)) return nullptr;
        d->stream->d->sessionStarted = true;
        return server->nextPendingConnection();
    }
    // the entry point of real traffic: XmppSocket::stanzaReceived is connected to this slot
    void recvStream(const QDomElement &el) { d->stream->handlePacketReceived(el); }
    // the entry point of decrypted IQs (called by an e2ee extension after decryption)
    void recvDecrypted(const QDomElement &el) { injectIq(el, QXmppE2eeMetadata()); }
    void resetIds() { QXmppStanza::s_uniqeIdNo = 0; }
};

// a do-nothing extension placed before/between/after the managers: tells which manager consumed a stanza
class Probe : public QXmppClientExtension
{
public:
    Probe(TestClient *c, int i) : c(c), idx(i) { }
    bool handleStanza(const QDomElement &, const std::optional<QXmppE2eeMetadata> &) override
    {
        c->reached = idx;
        return false;
    }
    TestClient *c;
    int idx;
};

// ------------------------------------------------------------------------------------------------ managers
struct MgrDef {
    string key;                                               // name used in op lines / oracle keys
    string cls;                                               // C++ class
    std::function<QXmppClientExtension *(TestClient *)> make;
    vector<string> needs;                                     // must be registered before it
};

static vector<MgrDef> &mgrDefs()
{
    static vector<MgrDef> v = {
        { "archive", "QXmppArchiveManager", [](TestClient *) { return new QXmppArchiveManager; }, {} },
        { "blocking", "QXmppBlockingManager", [](TestClient *) { return new QXmppBlockingManager; }, {} },
        { "blocking+sub", "QXmppBlockingManager", [](TestClient *) { return new QXmppBlockingManager; }, {} },
        { "bookmark", "QXmppBookmarkManager", [](TestClient *) { return new QXmppBookmarkManager; }, {} },
        { "carbon", "QXmppCarbonManager", [](TestClient *) { return new QXmppCarbonManager; }, {} },
        { "carbonV2", "QXmppCarbonManagerV2", [](TestClient *) { return new QXmppCarbonManagerV2; }, {} },
        { "discovery", "QXmppDiscoveryManager", [](TestClient *) { return new QXmppDiscoveryManager; }, {} },
        { "entityTime", "QXmppEntityTimeManager", [](TestClient *) { return new QXmppEntityTimeManager; }, {} },
        { "mam", "QXmppMamManager", [](TestClient *) { return new QXmppMamManager; }, {} },
        { "muc", "QXmppMucManager", [](TestClient *) { return new QXmppMucManager; }, {} },
        { "pubsub", "QXmppPubSubManager", [](TestClient *) { return new QXmppPubSubManager; }, {} },
        { "registration", "QXmppRegistrationManager", [](TestClient *) { return new QXmppRegistrationManager; }, {} },
        { "roster", "QXmppRosterManager", [](TestClient *c) { return new QXmppRosterManager(c); }, {} },
        { "rpc", "QXmppRpcManager", [](TestClient *) { return new QXmppRpcManager; }, {} },
        { "transfer", "QXmppTransferManager", [](TestClient *) { return new QXmppTransferManager; }, {} },
        { "uploadRequest", "QXmppUploadRequestManager", [](TestClient *) { return new QXmppUploadRequestManager; }, {} },
        { "vcard", "QXmppVCardManager", [](TestClient *) { return new QXmppVCardManager; }, {} },
        { "version", "QXmppVersionManager", [](TestClient *) { return new QXmppVersionManager; }, {} },
        // no handleStanza override
        { "accountMigration", "QXmppAccountMigrationManager", [](TestClient *) { return new QXmppAccountMigrationManager; }, {} },
        { "attention", "QXmppAttentionManager", [](TestClient *) { return new QXmppAttentionManager; }, {} },
        { "callInvite", "QXmppCallInviteManager", [](TestClient *) { return new QXmppCallInviteManager; }, {} },
        { "externalService", "QXmppExternalServiceDiscoveryManager", [](TestClient *) { return new QXmppExternalServiceDiscoveryManager; }, {} },
        { "httpUpload", "QXmppHttpUploadManager", [](TestClient *) { return new QXmppHttpUploadManager; }, {} },
        { "jmi", "QXmppJingleMessageInitiationManager", [](TestClient *) { return new QXmppJingleMessageInitiationManager; }, {} },
        { "messageReceipt", "QXmppMessageReceiptManager", [](TestClient *) { return new QXmppMessageReceiptManager; }, {} },
        { "mix", "QXmppMixManager", [](TestClient *) { return new QXmppMixManager; }, { "discovery", "pubsub" } },
        { "moved", "QXmppMovedManager", [](TestClient *) { return new QXmppMovedManager; }, { "discovery", "pubsub" } },
        { "userLocation", "QXmppUserLocationManager", [](TestClient *) { return new QXmppUserLocationManager; }, {} },
        { "userTune", "QXmppUserTuneManager", [](TestClient *) { return new QXmppUserTuneManager; }, {} },
        { "atm", "QXmppAtmManager", [](TestClient *) { return new QXmppAtmManager(new QXmppAtmTrustMemoryStorage); }, {} },
        { "fileSharing", "QXmppFileSharingManager", [](TestClient *) { return new QXmppFileSharingManager; }, {} },
    };
    return v;
}
static const MgrDef &mgrDef(const string &k)
{
    for (auto &m : mgrDefs()) if (m.key == k) return m;
    fprintf(stderr, "unknown manager %s\n", k.c_str());
    exit(3);
}

// ------------------------------------------------------------------------------------------------ payload catalogue
struct Payload {
    string name;          // unique
    string key;           // coarse class used in oracle keys (e.g. "vCard", "archive-chat")
    string xml;           // children of the <iq/>
    vector<int> flags;    // one per child element (meaning: see Kid.flag in the Lean model)
    std::set<string> owners;  // managers whose handler looks at this key (to pick per-manager payload sets)
    std::map<string, string> keyBy;  // payloads claimed by several managers: oracle key per deciding manager
};

struct Variant { string label, attrs, inner; int flag; };
struct KeyDef { string key, tag, ns; vector<string> owners; vector<Variant> vars; };

static const string UNK = "<foo xmlns='urn:example:unknown'/>";
static const string ERRCHILD = "<error type='cancel'><item-not-found xmlns='urn:ietf:params:xml:ns:xmpp-stanzas'/></error>";

static string el(const string &tag, const string &ns, const string &attrs, const string &inner)
{
    string s = "<" + tag + " xmlns='" + ns + "'" + (attrs.empty() ? "" : " " + attrs);
    return inner.empty() ? s + "/>" : s + ">" + inner + "</" + tag + ">";
}

static vector<KeyDef> keyDefs()
{
    const string NS_DI = "http://jabber.org/protocol/disco#info", NS_DT = "http://jabber.org/protocol/disco#items";
    const string NS_AR = "urn:xmpp:archive", NS_IBB = "http://jabber.org/protocol/ibb";
    const string NS_BS = "http://jabber.org/protocol/bytestreams", NS_SI = "http://jabber.org/protocol/si";
    const string FORM = "<x xmlns='jabber:x:data' type='form'><field var='muc#roomconfig_roomname'><value>r</value></field></x>";
    return {
        { "vCard", "vCard", "vcard-temp", { "vcard" }, {
            { "full", "", "<FN>Joe</FN><NICKNAME>j</NICKNAME><BDAY>1990-01-02</BDAY><EMAIL><USERID>j@x.y</USERID></EMAIL>", 0 },
            { "min", "", "", 0 },
            { "bad", "version='9'", "<BDAY>never</BDAY><PHOTO><BINVAL>!!!</BINVAL></PHOTO><vCard/><N/>", 0 } } },
        { "roster", "query", "jabber:iq:roster", { "roster" }, {
            { "full", "ver='v7'", "<item jid='romeo@example.net' name='R' subscription='both'><group>F</group></item>", 0 },
            { "min", "", "", 0 },
            { "remove", "", "<item jid='romeo@example.net' subscription='remove'/>", 0 },
            { "bad", "", "<item/><item jid='' subscription='zzz'><group/></item><query/>", 0 } } },
        { "disco-info", "query", NS_DI, { "discovery", "mix", "moved", "registration", "uploadRequest" }, {
            { "full", "", "<identity category='client' type='pc' name='x'/><feature var='urn:xmpp:ping'/>", 0 },
            { "min", "", "", 0 },
            { "capsnode", "node='https://github.com/qxmpp-project/qxmpp#abc'", "", 0 },
            { "foreignnode", "node='http://other.example/client#xyz'", "", 1 },
            { "bad", "node=''", "<identity/><feature/><x xmlns='jabber:x:data'/>", 0 } } },
        { "disco-items", "query", NS_DT, { "discovery" }, {
            { "full", "", "<item jid='a.example.org' name='n'/>", 0 },
            { "min", "", "", 0 },
            { "foreignnode", "node='some-node'", "", 1 },
            { "bad", "", "<item/><query/>", 0 } } },
        { "version", "query", "jabber:iq:version", { "version" }, {
            { "full", "", "<name>n</name><version>1</version><os>o</os>", 0 },
            { "min", "", "", 0 },
            { "bad", "", "<name><name/></name><bogus/>", 0 } } },
        { "time", "time", "urn:xmpp:time", { "entityTime" }, {
            { "full", "", "<tzo>-06:00</tzo><utc>2006-12-19T17:58:35Z</utc>", 0 },
            { "min", "", "", 0 },
            { "bad", "", "<tzo>zz</tzo><utc>yesterday</utc>", 0 } } },
        { "archive-chat", "chat", NS_AR, { "archive" }, {
            { "full", "with='juliet@example.net' start='1469-07-21T02:56:15Z'", "<from secs='0'><body>hi</body></from>", 1 },
            { "min", "with='x'", "", 1 },
            { "nowith", "", "", 0 },
            { "emptywith", "with=''", "<to secs='1'/>", 0 },
            { "bad", "with='@@' start='never'", "<from/><chat/>", 1 } } },
        { "archive-list", "list", NS_AR, { "archive" }, {
            { "full", "with='juliet@example.net'", "<set xmlns='http://jabber.org/protocol/rsm'><max>30</max></set>", 0 },
            { "min", "", "", 0 },
            { "bad", "start='x'", "<chat/><set/>", 0 } } },
        { "archive-pref", "pref", NS_AR, { "archive" }, {
            { "full", "", "<auto save='true'/><default otr='concede' save='body'/>", 0 },
            { "min", "", "", 0 },
            { "bad", "", "<pref/>", 0 } } },
        { "archive-retrieve", "retrieve", NS_AR, { "archive" }, {
            { "min", "with='juliet@example.net' start='1469-07-21T02:56:15Z'", "", 0 } } },
        { "private-bookmarks", "query", "jabber:iq:private", { "bookmark" }, {
            { "full", "", "<storage xmlns='storage:bookmarks'><conference jid='r@c.example' autojoin='true' name='n'><nick>me</nick></conference><url url='http://x' name='u'/></storage>", 1 },
            { "min", "", "<storage xmlns='storage:bookmarks'/>", 1 },
            { "bad", "", "<storage xmlns='storage:bookmarks'><conference/><url/><storage/></storage>", 1 },
            { "empty", "", "", 0 },
            { "otherstorage", "", "<storage xmlns='storage:rosternotes'/>", 0 },
            { "secondstorage", "", "<foo xmlns='urn:example:unknown'/><storage xmlns='storage:bookmarks'/>", 0 } } },
        { "rpc", "query", "jabber:iq:rpc", { "rpc" }, {
            { "full", "", "<methodCall><methodName>Iface.method</methodName><params><param><value><i4>6</i4></value></param></params></methodCall>", 1 },
            { "min", "", "", 0 },
            { "nodot", "", "<methodCall><methodName>method</methodName></methodCall>", 0 },
            { "twodots", "", "<methodCall><methodName>a.b.c</methodName></methodCall>", 0 },
            { "response", "", "<methodResponse><params><param><value><string>x</string></value></param></params></methodResponse>", 0 },
            { "bad", "", "<methodCall><methodName>x.y</methodName><params><param><value><struct><member/></struct></value></param><param/></params></methodCall>", 1 } } },
        { "mam-fin", "fin", "urn:xmpp:mam:2", { "mam" }, {
            { "full", "complete='true'", "<set xmlns='http://jabber.org/protocol/rsm'><first index='0'>a</first><last>b</last><count>2</count></set>", 0 },
            { "min", "", "", 0 },
            { "bad", "complete='perhaps'", "<set/><fin/>", 0 } } },
        { "mam-query", "query", "urn:xmpp:mam:2", { "mam" }, {
            { "min", "queryid='q1'", "", 0 } } },
        { "block", "block", "urn:xmpp:blocking", { "blocking", "blocking+sub" }, {
            { "full", "", "<item jid='romeo@example.net'/><item jid='spam.example'/>", 0 },
            { "min", "", "", 0 },
            { "bad", "", "<item/><jid>x</jid>", 0 } } },
        { "unblock", "unblock", "urn:xmpp:blocking", { "blocking", "blocking+sub" }, {
            { "full", "", "<item jid='romeo@example.net'/>", 0 },
            { "min", "", "", 0 },
            { "bad", "", "<item/><item jid=''/>", 0 } } },
        { "blocklist", "blocklist", "urn:xmpp:blocking", { "blocking", "blocking+sub" }, {
            { "min", "", "<item jid='romeo@example.net'/>", 0 } } },
        { "upload-request", "request", "urn:xmpp:http:upload:0", { "uploadRequest" }, {
            { "full", "filename='a.png' size='23456' content-type='image/png'", "", 0 },
            { "min", "", "", 0 },
            { "bad", "size='-1' filename=''", "<request/>", 0 } } },
        { "upload-slot", "slot", "urn:xmpp:http:upload:0", { "uploadRequest" }, {
            { "full", "", "<put url='https://u.example/p'><header name='Authorization'>Basic x</header></put><get url='https://u.example/g'/>", 0 },
            { "min", "", "", 0 },
            { "bad", "", "<put/><get url='::'/><put url='http://plain'/>", 0 } } },
        { "register", "query", "jabber:iq:register", { "registration" }, {
            { "full", "", "<instructions>i</instructions><username/><password/>", 0 },
            { "min", "", "", 0 },
            { "remove", "", "<remove/>", 0 },
            { "bad", "", "<x xmlns='jabber:x:data' type='nonsense'><field/></x><query/>", 0 } } },
        { "ibb-open", "open", NS_IBB, { "transfer" }, {
            { "full", "sid='i781hf64' block-size='4096' stanza='iq'", "", 0 },
            { "min", "", "", 0 },
            { "bad", "sid='' block-size='999999999999'", "<open/>", 0 } } },
        { "ibb-data", "data", NS_IBB, { "transfer" }, {
            { "full", "sid='i781hf64' seq='0'", "qANQR1DBwU4DX7jmYZnncmUQB", 0 },
            { "min", "", "", 0 },
            { "bad", "sid='x' seq='70000'", "****", 0 } } },
        { "ibb-close", "close", NS_IBB, { "transfer" }, {
            { "full", "sid='i781hf64'", "", 0 },
            { "min", "", "", 0 },
            { "bad", "sid=''", "<close/>", 0 } } },
        { "bytestreams", "query", NS_BS, { "transfer" }, {
            { "full", "sid='vxf9n471bn46' mode='tcp'", "<streamhost jid='juliet@example.net/balcony' host='192.0.2.1' port='5086'/>", 0 },
            { "min", "", "", 0 },
            { "used", "sid='vxf9n471bn46'", "<streamhost-used jid='proxy.example.net'/>", 0 },
            { "bad", "mode='carrier-pigeon'", "<streamhost port='-1'/><query/>", 0 } } },
        { "si", "si", NS_SI, { "transfer" }, {
            { "full", "id='a0' mime-type='text/plain' profile='http://jabber.org/protocol/si/profile/file-transfer'",
              "<file xmlns='http://jabber.org/protocol/si/profile/file-transfer' name='t.txt' size='1022'/>"
              "<feature xmlns='http://jabber.org/protocol/feature-neg'><x xmlns='jabber:x:data' type='form'><field var='stream-method' type='list-single'>"
              "<option><value>http://jabber.org/protocol/bytestreams</value></option><option><value>http://jabber.org/protocol/ibb</value></option></field></x></feature>", 0 },
            { "min", "", "", 0 },
            { "nomethod", "id='a1' profile='http://jabber.org/protocol/si/profile/file-transfer'",
              "<file xmlns='http://jabber.org/protocol/si/profile/file-transfer' name='t.txt' size='1'/>", 0 },
            { "bad", "profile='urn:example:other'", "<si/><feature/>", 0 } } },
        { "muc-admin", "query", "http://jabber.org/protocol/muc#admin", { "muc" }, {
            { "full", "", "<item affiliation='member' jid='hag66@shakespeare.lit' nick='thirdwitch' role='participant'/>", 0 },
            { "min", "", "", 0 },
            { "bad", "", "<item/><item affiliation='emperor'/>", 0 } } },
        { "muc-owner", "query", "http://jabber.org/protocol/muc#owner", { "muc" }, {
            { "full", "", FORM, 0 },
            { "min", "", "", 0 },
            { "bad", "", "<x xmlns='jabber:x:data'/><destroy/>", 0 } } },
        // claimed by nobody in this build
        { "ping", "ping", "urn:xmpp:ping", {}, { { "min", "", "", 0 } } },
        { "jingle", "jingle", "urn:xmpp:jingle:1", {}, { { "min", "action='session-initiate' sid='a73sjjvkla37jfea'", "<content creator='initiator' name='voice'/>", 0 } } },
        { "pubsub", "pubsub", "http://jabber.org/protocol/pubsub", { "pubsub", "mix", "userLocation", "userTune" }, {
            { "min", "", "<items node='urn:xmpp:mix:nodes:info'/>", 0 } } },
        { "carbons-enable", "enable", "urn:xmpp:carbons:2", { "carbon", "carbonV2" }, { { "min", "", "", 0 } } },
        { "extdisco", "services", "urn:xmpp:extdisco:2", { "externalService" }, { { "min", "", "<service host='stun.example' type='stun'/>", 0 } } },
        { "mix-join", "client-join", "urn:xmpp:mix:pam:2", { "mix" }, { { "min", "channel='c@mix.example'", "<join xmlns='urn:xmpp:mix:core:1'/>", 0 } } },
    };
}

static vector<Payload> buildCatalogue(bool thorough)
{
    vector<Payload> out;
    auto add = [&](string name, string key, string xml, vector<int> flags, const vector<string> &owners) {
        Payload p; p.name = std::move(name); p.key = std::move(key); p.xml = std::move(xml); p.flags = std::move(flags);
        p.owners.insert(owners.begin(), owners.end());
        out.push_back(std::move(p));
    };
    add("none", "none", "", {}, {});
    add("unknown", "unknown", UNK, { 0 }, {});
    add("unknown-nons", "unknown", "<bar/>", { 0 }, {});
    add("unknown-x2", "unknown", UNK + "<baz xmlns='urn:example:unknown2'><query/></baz>", { 0, 0 }, {});
    add("error-only", "unknown", ERRCHILD, { 0 }, {});
    add("text-only", "none", "just some text", {}, {});
    for (auto &k : keyDefs()) {
        const Variant *mn = nullptr, *full = nullptr;
        for (auto &v : k.vars) {
            add(k.key + "." + v.label, k.key, el(k.tag, k.ns, v.attrs, v.inner), { v.flag }, k.owners);
            if (v.label == "min") mn = &v;
            if (v.label == "full") full = &v;
        }
        if (!mn) continue;
        if (!full) full = mn;
        string m = el(k.tag, k.ns, mn->attrs, mn->inner), f = el(k.tag, k.ns, full->attrs, full->inner);
        if (k.owners.empty() || k.vars.size() == 1) continue;  // structural shapes only for handled keys
        add(k.key + ".after", k.key, UNK + m, { 0, mn->flag }, k.owners);
        add(k.key + ".before", k.key, m + UNK, { mn->flag, 0 }, k.owners);
        add(k.key + ".wrongns", k.key, el(k.tag, "urn:example:unknown", full->attrs, full->inner), { full->flag }, k.owners);
        add(k.key + ".wrongtag", k.key, el("zzz", k.ns, full->attrs, full->inner), { full->flag }, k.owners);
        // QDomElement::tagName() is the local name, so a prefixed element is the same (tag, ns) for the handlers
        add(k.key + ".prefixed", k.key, "<p:" + k.tag + " xmlns:p='" + k.ns + "'" + (full->attrs.empty() ? "" : " " + full->attrs) + ">" + full->inner + "</p:" + k.tag + ">", { full->flag }, k.owners);
        add(k.key + ".witherror", k.key, m + ERRCHILD, { mn->flag, 0 }, k.owners);
        add(k.key + ".errorfirst", k.key, ERRCHILD + f, { 0, full->flag }, k.owners);
        add(k.key + ".textfirst", k.key, " x " + f + "\n", { full->flag }, k.owners);
        if (thorough) {
            add(k.key + ".doubled", k.key, m + f, { mn->flag, full->flag }, k.owners);
            add(k.key + ".comment", k.key, "<!-- c -->" + f, { full->flag }, k.owners);
            add(k.key + ".after2", k.key, UNK + UNK + f, { 0, 0, full->flag }, k.owners);
        }
    }
    // claimed by two managers: who is first in the list decides
    auto mixed = [&](string name, string xml, vector<int> flags, std::map<string, string> keyBy) {
        Payload p; p.name = std::move(name); p.key = "mixed"; p.xml = std::move(xml); p.flags = std::move(flags);
        for (auto &kv : keyBy) p.owners.insert(kv.first);
        p.keyBy = std::move(keyBy);
        out.push_back(std::move(p));
    };
    const string CHATW = "<chat xmlns='urn:xmpp:archive' with='x'/>", FIN = "<fin xmlns='urn:xmpp:mam:2'/>";
    const string SI = "<si xmlns='http://jabber.org/protocol/si'/>", RPCQ = "<query xmlns='jabber:iq:rpc'><methodCall><methodName>a.b</methodName></methodCall></query>";
    mixed("mixed.vcard+chat", "<vCard xmlns='vcard-temp'/>" + CHATW, { 0, 1 }, { { "vcard", "vCard" }, { "archive", "archive-chat" } });
    mixed("mixed.version+fin", "<query xmlns='jabber:iq:version'/>" + FIN, { 0, 0 }, { { "version", "version" }, { "mam", "mam-fin" } });
    mixed("mixed.roster+si", "<query xmlns='jabber:iq:roster'/>" + SI, { 0, 0 }, { { "roster", "roster" }, { "transfer", "si" } });
    mixed("mixed.slot+chat+fin", "<slot xmlns='urn:xmpp:http:upload:0'/>" + CHATW + FIN, { 0, 1, 0 },
          { { "uploadRequest", "upload-slot" }, { "archive", "archive-chat" }, { "mam", "mam-fin" } });
    mixed("mixed.time+rpc", "<time xmlns='urn:xmpp:time'/>" + RPCQ, { 0, 1 }, { { "entityTime", "time" }, { "rpc", "rpc" } });
    mixed("mixed.ibbopen+rpc", "<open xmlns='http://jabber.org/protocol/ibb'/>" + RPCQ, { 0, 1 }, { { "transfer", "ibb-open" }, { "rpc", "rpc" } });
    mixed("mixed.register+fin", "<query xmlns='jabber:iq:register'/>" + FIN, { 0, 0 }, { { "registration", "register" }, { "mam", "mam-fin" } });
    return out;
}

// ------------------------------------------------------------------------------------------------ cell dimensions
static const vector<string> TYPES = { "get", "set", "result", "error", "absent", "garbage" };
static const vector<string> FROMS = { "none", "domain", "ownBare", "ownFull", "ownOther", "other" };

static string xmlEsc(const string &s)
{
    string o;
    for (char c : s) {
        switch (c) {
        case '&': o += "&amp;"; break;
        case '<': o += "&lt;"; break;
        case '>': o += "&gt;"; break;
        case '\'': o += "&apos;"; break;
        case '"': o += "&quot;"; break;
        default: o += c;
        }
    }
    return o;
}

// attribute spelling for a class; "\x01" = attribute not written at all
static const string NOATTR = "\x01";
static string typeSpelling(const string &cls, Rng &r)
{
    if (cls == "absent") return r.coin() ? NOATTR : "";
    if (cls == "garbage") {
        static const vector<string> g = { "bogus", "GET", "get ", "Result", "sett", " error", "subscribe", "chat" };
        return g[r.below(g.size())];
    }
    return cls;
}
static string fromSpelling(const string &cls, const string &idClass, Rng &r)
{
    if (cls == "none") return r.coin() ? NOATTR : "";
    if (cls == "domain") return "example.org";
    if (cls == "ownBare") return OWN_BARE;
    if (cls == "ownFull") return OWN_FULL;
    if (cls == "ownOther") { static const vector<string> g = { "me@example.org/phone", "me@example.org/home2", "me@example.org/" }; return g[r.below(g.size())]; }
    // other: the addressee of the outstanding request when the id is the table id, else any foreign JID,
    // including look-alikes of the own JID that only a prefix/suffix comparison would accept
    if (idClass == "table") return OTHER_FULL;
    static const vector<string> g = { OTHER_FULL, "juliet@example.net", "example.net", "me@example.org.evil.example/home",
                                      "xme@example.org/home", "room@conference.example.org/me", "me@example.net" };
    return g[r.below(g.size())];
}

struct Cell {
    bool enc;
    string type, from, id;  // classes
    const Payload *p;
};

struct Config {
    string name;             // label for statistics
    vector<string> mgrs;     // registration order
};

// ------------------------------------------------------------------------------------------------ running
struct Built {
    std::unique_ptr<QTcpSocket> peer;  // server side of the loopback connection (connected mode)
    std::unique_ptr<TestClient> c;
    vector<string> mgrs;
    QXmppRegistrationManager *reg = nullptr;
    QXmppBookmarkManager *bm = nullptr;
};

static QDomElement parseStanza(const QString &xml, QDomDocument &doc)
{
    // same wrapping as XmppSocket::processData: the stanza is a child of the stream element and inherits jabber:client
    QString wrapped = QStringLiteral("<stream:stream xmlns='jabber:client' xmlns:stream='http://etherx.jabber.org/streams' version='1.0'>") + xml +
        QStringLiteral("</stream:stream>");
    QString err;
    if (!doc.setContent(wrapped, true, &err)) {
        fprintf(stderr, "harness bug: stanza does not parse: %s\n%s\n", qPrintable(err), qPrintable(xml));
        exit(3);
    }
    return doc.documentElement().firstChildElement();
}

static string attrOf(const QString &packet, const char *name, bool *present = nullptr)
{
    QDomDocument d;
    d.setContent(packet, true);
    auto e = d.documentElement();
    if (present) *present = e.hasAttribute(QString::fromLatin1(name));
    return e.attribute(QString::fromLatin1(name)).toStdString();
}

static Built build(const vector<string> &order, bool connected = false)
{
    Built b;
    b.c = std::make_unique<TestClient>();
    b.mgrs = order;
    TestClient *c = b.c.get();
    if (connected) {
        b.peer.reset(c->connectLoopback());
        if (!b.peer) { b.c.reset(); return b; }  // no loopback networking here: the caller skips the configuration
    }
    // final extension list: probe0, m0, probe1, m1, ..., probe_n. Registration happens in dependency order,
    // each extension inserted at its final position.
    int n = order.size();
    vector<QXmppClientExtension *> extAt(2 * n + 1, nullptr);
    vector<bool> added(2 * n + 1, false);
    auto insertAt = [&](int pos, QXmppClientExtension *e) {
        int idx = 0;
        for (int i = 0; i < pos; i++) if (added[i]) idx++;
        c->insertExtension(idx, e);
        added[pos] = true; extAt[pos] = e;
    };
    for (int i = 0; i <= n; i++) insertAt(2 * i, new Probe(c, i));
    vector<bool> done(n, false);
    std::function<void(int)> reg = [&](int i) {
        if (done[i]) return;
        done[i] = true;
        for (auto &need : mgrDef(order[i]).needs)
            for (int j = 0; j < n; j++) if (order[j] == need) reg(j);
        auto *e = mgrDef(order[i]).make(c);
        insertAt(2 * i + 1, e);
        if (order[i] == "registration") b.reg = static_cast<QXmppRegistrationManager *>(e);
        if (order[i] == "bookmark") b.bm = static_cast<QXmppBookmarkManager *>(e);
        if (order[i] == "blocking+sub") {
            auto *bm = static_cast<QXmppBlockingManager *>(e);
            c->sent.clear();
            bm->fetchBlocklist();
            string id = c->sent.isEmpty() ? "" : attrOf(c->sent.first(), "id");
            QDomDocument doc;
            c->recvStream(parseStanza(QString::fromStdString("<iq type='result' id='" + id + "'><blocklist xmlns='urn:xmpp:blocking'><item jid='spam.example'/></blocklist></iq>"), doc));
            if (!bm->isSubscribed()) { fprintf(stderr, "harness bug: blocklist subscription did not work\n"); exit(3); }
        }
    };
    for (int i = 0; i < n; i++) reg(i);
    c->sent.clear(); c->errors = 0; c->reached = -1;
    return b;
}

struct FailAgg {
    std::set<string> froms;
    string firstReplay;
    long count = 0;
};
static std::map<string, FailAgg> &fails() { static std::map<string, FailAgg> m; return m; }  // key without from: by:type:child

static long cellsRun = 0;
static bool wantSample = false;

static void runCell(Built &b, const Cell &cell, Rng &rng, bool emitLine = true)
{
    TestClient *c = b.c.get();
    c->resetIds();
    // --- id
    string idAttr;
    if (cell.id == "absent") idAttr = rng.coin() ? NOATTR : "";
    else if (cell.id == "fresh") {
        static const vector<string> g = { "abc123", "qxmpp999", "x&y<\"z'", "1", "ID with space" };
        idAttr = g[rng.below(g.size())];
    } else if (cell.id == "table") {
        c->sent.clear();
        QXmppIq req(QXmppIq::Get);
        req.setTo(QString::fromUtf8(OTHER_FULL));
        c->sendIq(std::move(req));
        idAttr = c->sent.isEmpty() ? "" : attrOf(c->sent.first(), "id");
        if (idAttr.empty()) { fprintf(stderr, "harness bug: no outstanding request id\n"); exit(3); }
    } else if (cell.id == "reg") {
        if (!b.reg) { fprintf(stderr, "harness bug: reg id without registration manager\n"); exit(3); }
        c->sent.clear();
        // (really connected: a result for deleteAccount makes the client log out — presence + stream end, not an IQ
        // reply and not part of the model — so that request kind is only used on the unconnected client)
        switch (rng.below(b.peer ? 2 : 3)) {
        case 0: b.reg->changePassword(QStringLiteral("pw2")); break;
        case 2: b.reg->deleteAccount(); break;
        default: b.reg->sendCachedRegistrationForm(); break;
        }
        idAttr = c->sent.isEmpty() ? "" : attrOf(c->sent.first(), "id");
        if (idAttr.empty()) { fprintf(stderr, "harness bug: no registration request id\n"); exit(3); }
    }
    else if (cell.id == "bm") {
        // QXmppBookmarkManager::setBookmarks records its pending id only when the socket write succeeded
        if (!b.bm || !b.peer) { fprintf(stderr, "harness bug: bm id needs a connected client with the bookmark manager\n"); exit(3); }
        c->sent.clear();
        QXmppBookmarkSet set;
        QXmppBookmarkUrl url; url.setName(QStringLiteral("u")); url.setUrl(QUrl(QStringLiteral("http://x.example/")));
        set.setUrls({ url });
        if (!b.bm->setBookmarks(set)) { fprintf(stderr, "harness bug: setBookmarks failed\n"); exit(3); }
        idAttr = c->sent.isEmpty() ? "" : attrOf(c->sent.first(), "id");
        if (idAttr.empty()) { fprintf(stderr, "harness bug: no bookmark request id\n"); exit(3); }
    }
    string typeAttr = typeSpelling(cell.type, rng), fromAttr = fromSpelling(cell.from, cell.id, rng);
    string xml = "<iq";
    if (typeAttr != NOATTR) xml += " type='" + xmlEsc(typeAttr) + "'";
    if (fromAttr != NOATTR) xml += " from='" + xmlEsc(fromAttr) + "'";
    if (idAttr != NOATTR) xml += " id='" + xmlEsc(idAttr) + "'";
    if (rng.coin()) xml += string(" to='") + OWN_FULL + "'";
    xml += ">" + cell.p->xml + "</iq>";
    string reqFrom = fromAttr == NOATTR ? "" : fromAttr, reqId = idAttr == NOATTR ? "" : idAttr;

    QDomDocument doc;
    QDomElement stanza = parseStanza(QString::fromStdString(xml), doc);
    // abstract children, read off the DOM the library gets
    string kids;
    size_t nk = 0;
    for (auto k = stanza.firstChildElement(); !k.isNull(); k = k.nextSiblingElement(), nk++) {
        string t = k.tagName().toStdString(), n = k.namespaceURI().toStdString();
        if (t.find_first_of(" |;\t") != string::npos || n.find_first_of(" |;\t") != string::npos || nk >= cell.p->flags.size()) {
            fprintf(stderr, "harness bug: payload %s child %zu not describable\n", cell.p->name.c_str(), nk); exit(3);
        }
        if (!kids.empty()) kids += ";";
        kids += t + "|" + n + "|" + (cell.p->flags[nk] ? "1" : "0");
    }
    if (nk != cell.p->flags.size()) { fprintf(stderr, "harness bug: payload %s has %zu children, %zu flags\n", cell.p->name.c_str(), nk, cell.p->flags.size()); exit(3); }
    if (kids.empty()) kids = "-";

    c->sent.clear(); c->errors = 0; c->reached = -1;
    if (cell.enc) c->recvDecrypted(stanza); else c->recvStream(stanza);
    QCoreApplication::sendPostedEvents();

    // --- observe
    int n = b.mgrs.size();
    string by;
    if (c->reached < 0) by = "table";                       // never reached the extensions
    else if (c->reached < n) by = b.mgrs[c->reached];       // passed probe i, not probe i+1
    else by = c->errors ? "rejected" : "fallback";
    if (cell.enc && c->reached < 0) by = "lost";            // injectIq always runs the extensions
    struct R { string kind, to, id; };
    vector<R> reps;
    int otherSent = 0;
    string sentDump;
    for (auto &pkt : c->sent) {
        if (pkt == QStringLiteral("<r xmlns=\"urn:xmpp:sm:3\"/>")) continue;
        if (pkt == QStringLiteral("</stream:stream>") && c->errors) continue;  // connected mode: the stream error closes the stream
        sentDump += pkt.toStdString() + " ";
        QDomDocument d;
        if (!d.setContent(pkt, true)) { otherSent++; continue; }
        auto e = d.documentElement();
        string ty = e.attribute(QStringLiteral("type")).toStdString();
        if (e.tagName() != QStringLiteral("iq") || (ty != "result" && ty != "error")) { otherSent++; continue; }
        string to = e.attribute(QStringLiteral("to")).toStdString(), id = e.attribute(QStringLiteral("id")).toStdString();
        R r;
        r.kind = ty;
        r.to = to == reqFrom ? "sender" : (to.empty() ? "none" : "wrong");
        r.id = id == reqId ? "same" : "differs";
        reps.push_back(r);
    }
    string rs;
    for (auto &r : reps) { if (!rs.empty()) rs += ","; rs += r.kind + "/" + r.to + "/" + r.id; }
    if (rs.empty()) rs = "-";
    string obs = "by=" + by + " n=" + std::to_string(reps.size()) + " r=" + rs + " disc=" + (c->errors ? "1" : "0");
    if (otherSent) obs += " x=" + std::to_string(otherSent);   // the model never predicts other traffic
    string op = string("iq ") + (cell.enc ? "e" : "s") + " " + cell.type + " " + cell.from + " " + cell.id + " " + kids;
    if (emitLine) corr(op, obs);
    if (wantSample) sample(xml + "  =>  " + obs + "   [model op: " + op + "]");
    cellsRun++;
    stat("cells");
    stat("decided_by." + by);
    stat("type." + cell.type);

    // --- oracle: the property text, evaluated on what was sent
    bool req = cell.type == "get" || cell.type == "set", resp = cell.type == "result" || cell.type == "error";
    if (!req && !resp) { stat("oracle_not_applicable"); return; }
    bool ok;
    string why;
    if (req) {
        bool toOk = false;
        if (reps.size() == 1) {
            // no `to` reaches the requester only if the requester is the account's own server
            toOk = reps[0].to == "sender" || (reps[0].to == "none" && (cell.from == "none" || cell.from == "ownBare" || cell.from == "domain"));
        }
        ok = reps.size() == 1 && toOk && reps[0].id == "same";
        if (!ok) why = reps.empty() ? "no reply" : reps.size() > 1 ? "several replies" : !toOk ? "reply not addressed to the sender" : "reply id differs";
    } else {
        ok = reps.empty();
        if (!ok) why = "a response was answered";
    }
    if (ok) { oraclePass()++; return; }
    string child = cell.p->key;
    auto kb = cell.p->keyBy.find(by);
    if (kb != cell.p->keyBy.end()) child = kb->second;
    if (cell.id == "reg" && by == "registration") child = "pending-registration-id";
    if (cell.id == "bm" && by == "bookmark") child = "pending-bookmark-id";
    string k = by + ":" + cell.type + ":" + child;
    auto &agg = fails()[k];
    agg.count++;
    agg.froms.insert(cell.from);
    if (agg.firstReplay.empty()) agg.firstReplay = why + "; extensions=[" + [&] { string s; for (auto &m : b.mgrs) s += (s.empty() ? "" : ",") + m; return s; }() +
        "] entry=" + (cell.enc ? "injectIq" : "stream") + " received: " + xml + " sent: " + (sentDump.empty() ? "(nothing)" : sentDump);
}

static vector<const Payload *> payloadsFor(const vector<Payload> &cat, const Config &cfg, bool full)
{
    vector<const Payload *> v;
    std::set<string> ms(cfg.mgrs.begin(), cfg.mgrs.end());
    for (auto &p : cat) {
        bool own = false;
        for (auto &o : p.owners) if (ms.count(o)) own = true;
        bool foreignSample = p.name.size() > 4 && p.name.substr(p.name.size() - 4) == ".min";
        if (full || own || p.owners.empty() || foreignSample) v.push_back(&p);
    }
    return v;
}

static void runConfig(const Config &cfg, const vector<Payload> &cat, bool fullCatalogue, bool thorough, Rng &rng, int freshEvery, bool connected = false)
{
    string l;
    for (auto &m : cfg.mgrs) l += (l.empty() ? "" : ",") + m;
    if (connected && !build(cfg.mgrs, true).c) {
        // environment without loopback TCP: the really-connected runs are skipped and said so in the evidence
        stat("configs_skipped_no_loopback");
        return;
    }
    printf("I config %s [%s]\n", cfg.name.c_str(), l.c_str());
    fflush(stdout);
    corr("reset " + (l.empty() ? string("-") : l), "ok");
    bool hasReg = std::find(cfg.mgrs.begin(), cfg.mgrs.end(), "registration") != cfg.mgrs.end();
    bool hasBm = connected && std::find(cfg.mgrs.begin(), cfg.mgrs.end(), "bookmark") != cfg.mgrs.end();
    auto pls = payloadsFor(cat, cfg, fullCatalogue);
    Built b = build(cfg.mgrs, connected);
    int sinceFresh = 0;
    std::set<string> ms(cfg.mgrs.begin(), cfg.mgrs.end());
    for (auto *p : pls) {
        bool own = false;
        for (auto &o : p->owners) if (ms.count(o)) own = true;
        for (auto &type : TYPES) {
            for (auto &from : FROMS) {
                vector<string> ids = { "fresh" };
                // own payloads get the full id dimension; others a seeded choice in the quick tier
                if (own || thorough || rng.below(4) == 0) ids.push_back("absent");
                if (type == "result" || type == "error" || own || thorough) {
                    if (from == "none" || from == "other" || thorough || rng.below(4) == 0) ids.push_back("table");
                }
                if (hasReg && (p->name == "unknown" || p->name == "vCard.min" || p->name == "register.min" || p->name == "none")) ids.push_back("reg");
                if (hasBm && (p->name == "unknown" || p->name == "vCard.min" || p->name == "private-bookmarks.min" || p->name == "none")) ids.push_back("bm");
                for (auto &id : ids) {
                    for (int enc = 0; enc < 2; enc++) {
                        if (enc && !(own || thorough || p->owners.empty()) && rng.below(3)) continue;
                        bool stateful = id == "table" || id == "reg" || id == "bm";
                        if (stateful || sinceFresh >= freshEvery) { b = Built(); b = build(cfg.mgrs, connected); sinceFresh = 0; }
                        Cell cell { enc == 1, type, from, id, p };
                        runCell(b, cell, rng);
                        sinceFresh++;
                        if (stateful) { b = Built(); b = build(cfg.mgrs, connected); sinceFresh = 0; }
                    }
                }
            }
        }
    }
    stat("configs");
    if (connected) stat("configs_really_connected");
}

int main(int argc, char **argv)
{
    QCoreApplication app(argc, argv);
    Args a = parseArgs(argc, argv);
    bool thorough = a.tier == "thorough";
    // vh::Rng(seed) starts at seed*gamma + c and advances by gamma, so consecutive seeds give the same stream shifted by
    // one draw; hash the seed first so that VERIF_SEED=1,2,3 are unrelated runs
    uint64_t mixed = (a.seed + 0x632BE59BD9B4E019ull) * 0xD6E8FEB86659FD93ull;
    mixed ^= mixed >> 32; mixed *= 0xD6E8FEB86659FD93ull; mixed ^= mixed >> 32;
    Rng rng(mixed);
    auto cat = buildCatalogue(thorough);
    stat("payloads", (long long)cat.size());

    vector<string> allKeys;
    for (auto &m : mgrDefs()) if (m.key != "blocking+sub") allKeys.push_back(m.key);

    // corpus first: the 37 witness cells that violated the property before repo commits 28afc7a (vCard), 318b7cf
    // (roster), 1833c1a (transfer), 29beb7d (archive), 88fc5c1 (bookmark), daa6e10 (MAM), 7916dee (upload request),
    // e597fe7 (registration), af7bef7 (RPC); each on the smallest configuration that showed it, all sender classes.
    // Their oracle keys are unchanged, so any recurrence is reported as a violation at once.
    {
        auto pl = [&](const char *name) -> const Payload * {
            for (auto &p : cat) if (p.name == name) return &p;
            fprintf(stderr, "harness bug: corpus payload %s missing\n", name); exit(3);
        };
        struct W { vector<string> mgrs; vector<string> types; const char *payload; const char *id; bool connected; };
        const vector<string> DEF = { "roster", "vcard", "version", "entityTime", "discovery" };
        const vector<W> ws = {
            { DEF, { "get", "set" }, "vCard.min", "fresh", false },
            { DEF, { "get", "set" }, "roster.min", "fresh", false },
            { { "roster" }, { "get", "set" }, "roster.full", "fresh", false },
            { { "archive" }, { "get", "set" }, "archive-chat.full", "fresh", false },
            { { "archive" }, { "get", "set" }, "archive-list.full", "fresh", false },
            { { "archive" }, { "get", "set" }, "archive-pref.full", "fresh", false },
            { { "bookmark" }, { "get", "set" }, "private-bookmarks.full", "fresh", false },
            { { "bookmark", "vcard" }, { "get", "set" }, "unknown", "bm", true },
            { { "mam" }, { "get", "set" }, "mam-fin.full", "fresh", false },
            { { "registration" }, { "get", "set" }, "register.full", "fresh", false },
            { { "registration" }, { "get", "set" }, "unknown", "reg", false },
            { { "rpc" }, { "set" }, "rpc.min", "fresh", false },
            { { "rpc" }, { "set" }, "rpc.nodot", "fresh", false },
            { { "transfer" }, { "result", "error" }, "ibb-open.full", "fresh", false },
            { { "transfer" }, { "result", "error" }, "ibb-data.full", "fresh", false },
            { { "transfer" }, { "result", "error" }, "ibb-close.full", "fresh", false },
            { { "transfer" }, { "get" }, "bytestreams.full", "fresh", false },
            { { "transfer" }, { "get" }, "si.full", "fresh", false },
            { { "uploadRequest" }, { "get", "set" }, "upload-request.full", "fresh", false },
            { { "uploadRequest" }, { "get", "set" }, "upload-slot.full", "fresh", false },
        };
        for (auto &w : ws) {
            if (w.connected && !build(w.mgrs, true).c) { stat("configs_skipped_no_loopback"); continue; }
            string l;
            for (auto &m : w.mgrs) l += (l.empty() ? "" : ",") + m;
            corr("reset " + l, "ok");
            const Payload *p = pl(w.payload);
            for (auto &t : w.types) for (auto &f : FROMS) {
                Built b = build(w.mgrs, w.connected);
                wantSample = (f == "other" || f == "ownOther") && samplesLeft() > 1;
                Cell cell { false, t, f, w.id, p };
                runCell(b, cell, rng);
                wantSample = false;
                stat("corpus_cells");
            }
        }
    }

    int freshEvery = thorough ? 1 : 1;
    // no extensions
    runConfig({ "none", {} }, cat, true, thorough, rng, freshEvery);
    // every manager alone (managers with prerequisites: prerequisites first)
    for (auto &m : mgrDefs()) {
        Config c { "single:" + m.key, {} };
        for (auto &need : m.needs) c.mgrs.push_back(need);
        c.mgrs.push_back(m.key);
        runConfig(c, cat, false, thorough, rng, freshEvery);
    }
    // the default set of QXmppClient
    runConfig({ "default", { "roster", "vcard", "version", "entityTime", "discovery" } }, cat, true, thorough, rng, freshEvery);
    // the same over a really connected socket (loopback TCP): replies are written to the socket, a stream error closes
    // the stream; also the only way to give the bookmark manager an outstanding request id
    runConfig({ "default-connected", { "roster", "vcard", "version", "entityTime", "discovery" } }, cat, thorough, thorough, rng, 1, true);
    runConfig({ "bookmark-connected", { "bookmark", "vcard" } }, cat, false, thorough, rng, 1, true);
    runConfig({ "bookmark-connected2", { "vcard", "registration", "bookmark" } }, cat, false, thorough, rng, 1, true);
    // everything together, in several registration orders
    int nperm = thorough ? 6 : 2;
    for (int i = 0; i <= nperm; i++) {
        vector<string> order = allKeys;
        if (i == 1) std::reverse(order.begin(), order.end());
        if (i >= 2) for (size_t j = order.size(); j > 1; j--) std::swap(order[j - 1], order[rng.below(j)]);
        // one of the two blocking variants
        if (i % 2) for (auto &k : order) if (k == "blocking") k = "blocking+sub";
        runConfig({ "all#" + std::to_string(i), order }, cat, true, thorough, rng, thorough ? 1 : 50);
    }
    // random small sets in random order
    int nrand = thorough ? 60 : 12;
    for (int i = 0; i < nrand; i++) {
        vector<string> pool = allKeys, order;
        int k = 2 + rng.below(5);
        for (int j = 0; j < k; j++) { size_t x = rng.below(pool.size()); order.push_back(pool[x]); pool.erase(pool.begin() + x); }
        // prerequisites
        for (size_t j = 0; j < order.size(); j++)
            for (auto &need : mgrDef(order[j]).needs)
                if (std::find(order.begin(), order.end(), need) == order.end()) order.push_back(need);
        runConfig({ "random#" + std::to_string(i), order }, cat, false, thorough, rng, 1);
    }

    // oracle failures, one line per (deciding manager, type, child class, from); `any` when every sender class fails
    for (auto &kv : fails()) {
        auto &agg = kv.second;
        size_t p1 = kv.first.find(':'), p2 = kv.first.find(':', p1 + 1);
        string by = kv.first.substr(0, p1), type = kv.first.substr(p1 + 1, p2 - p1 - 1), child = kv.first.substr(p2 + 1);
        string rep = agg.firstReplay + " (" + std::to_string(agg.count) + " failing cells)";
        for (auto &ch : rep) if (ch == '\t' || ch == '\n') ch = ' ';
        if (agg.froms.size() == FROMS.size()) oracleFail("C08:" + by + ":" + type + ":" + child + ":any", rep);
        else for (auto &f : agg.froms) oracleFail("C08:" + by + ":" + type + ":" + child + ":" + f, rep);
    }
    // samples for the evidence
    sample("cell = entry(s|e) x type x from x id x children(tag|ns|flag); e.g. `iq s get other fresh vCard|vcard-temp|0`");
    stat("managers", (long long)mgrDefs().size());
    finish();
    return 0;
}
