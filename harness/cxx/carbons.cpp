// C11 harness: a real QXmppClient with QXmppCarbonManagerV2 (or, separately, the V1 QXmppCarbonManager) and a
// pass-through QXmppMessageHandler installed, own JID configured. Generated stanzas are rendered to XML, wrapped in
// a <stream:stream> exactly as XmppSocket::processData does, parsed by QDomDocument with namespace processing and
// pushed through QXmppOutgoingClient::handlePacketReceived (the slot the socket's stanzaReceived signal is wired to).
// Observed per stanza: the `handled` flag of the extension pipeline, the CVE-2017-5603 log notice, and every message
// that surfaces (message handler, QXmppClient::messageReceived, V1 messageSent/messageReceived) with id/from/to/body/
// isCarbonForwarded.  Each stanza gives one correspondence line for the Lean model (lean/Driver/C11.lean documents the
// op syntax) and is judged by an oracle written from the property text alone.
#include "common.h"

#include "QXmppCarbonManager.h"
#include "QXmppCarbonManagerV2.h"
#include "QXmppClient.h"
#include "QXmppClientExtension.h"
#include "QXmppClient_p.h"
#include "QXmppConfiguration.h"
#include "QXmppLogger.h"
#include "QXmppMessage.h"
#include "QXmppMessageHandler.h"
#include "QXmppOutgoingClient.h"
#include "XmppSocket.h"

#include <QCoreApplication>
#include <QDomDocument>
#include <QFile>
#include <QRegularExpression>
#include <QXmlStreamWriter>
#include <memory>
#include <optional>

using namespace vh;

static const QString NS_CARBONS = QStringLiteral("urn:xmpp:carbons:2");
static const QString NS_FWD = QStringLiteral("urn:xmpp:forward:0");
static const QString NS_CLIENT = QStringLiteral("jabber:client");

// ---------------------------------------------------------------------------------------------- stanza description
using Opt = std::optional<QString>;

struct MsgNode { QString tag, ns; Opt id, from, to, body; bool nested = false; Opt type = {}; int extras = 0; };
struct FwdNode { QString tag, ns; std::vector<MsgNode> kids; };
struct Child { QString tag, ns, text; std::vector<FwdNode> kids; };
struct Outer { QString tag = "message"; Opt id, from, to; bool junk = false; std::vector<Child> kids; Opt type = {}; };

static std::string pct(const QString &s)
{
    static const char *d = "0123456789ABCDEF";
    std::string out;
    const QByteArray u = s.toUtf8();
    for (unsigned char b : u) {
        bool safe = (b >= '0' && b <= '9') || (b >= 'A' && b <= 'Z') || (b >= 'a' && b <= 'z') ||
            b == '.' || b == '_' || b == '@' || b == '/' || b == '-' || b == ':';
        if (safe) out += char(b);
        else { out += '%'; out += d[b >> 4]; out += d[b & 15]; }
    }
    return out;
}
static std::string req(const QString &s) { return "=" + pct(s); }
static std::string opt(const Opt &o) { return o ? "=" + pct(*o) : std::string("-"); }

static std::string opOf(const Outer &o)
{
    std::string s = "msg " + req(o.tag) + " " + opt(o.id) + " " + opt(o.from) + " " + opt(o.to) + " " + opt(o.type) + " " + (o.junk ? "1" : "0") +
        " " + std::to_string(o.kids.size());
    for (auto &c : o.kids) {
        s += " c " + req(c.tag) + " " + req(c.ns) + " " + req(c.text) + " " + std::to_string(c.kids.size());
        for (auto &f : c.kids) {
            s += " f " + req(f.tag) + " " + req(f.ns) + " " + std::to_string(f.kids.size());
            for (auto &m : f.kids)
                s += " m " + req(m.tag) + " " + req(m.ns) + " " + opt(m.id) + " " + opt(m.from) + " " + opt(m.to) + " " + opt(m.type) + " " + opt(m.body) +
                    " " + (m.nested ? "1" : "0") + " " + std::to_string(m.extras);
        }
    }
    return s;
}

// ---------------------------------------------------------------------------------------------- rendering
// rendering choices that are NOT part of the description (the DOM the code sees is the same): checkDom() verifies that
enum RenderFlags { NestedFirst = 1, PrefixWrapper = 2, PrefixForwarded = 4, PrefixInner = 8 };

static void startEl(QXmlStreamWriter &w, const QString &tag, const QString &ns, bool prefixed = false)
{
    if (prefixed && !ns.isEmpty()) {
        // <p:sent xmlns:p="..."> — Qt's namespace-processing DOM reports tagName() == "sent" for it
        w.writeStartElement("p:" + tag);
        w.writeAttribute("xmlns:p", ns);
    } else {
        w.writeStartElement(tag);
        w.writeAttribute("xmlns", ns);
    }
}
static void junk(QXmlStreamWriter &w, bool on, int k)
{
    if (!on) return;
    switch (k % 3) {
    case 0: w.writeCharacters("\n  "); break;
    case 1: w.writeComment(" sent received forwarded "); break;
    default: w.writeCharacters("junk<sent/>text"); break;
    }
}
static void attr(QXmlStreamWriter &w, const char *n, const Opt &v) { if (v) w.writeAttribute(QString::fromLatin1(n), *v); }

// further payload of an inner element (bit mask `extras`); every child carries an explicit xmlns so that the DOM does not
// depend on the prefix rendering of the parent
enum Extras { XSubject = 1, XThread = 2, XPrivate = 4, XReceipt = 8, XHint = 16, XUnknown = 32, ExtrasAll = 63 };
static void leaf(QXmlStreamWriter &w, const char *tag, const char *ns, const char *text = nullptr)
{
    w.writeStartElement(QString::fromLatin1(tag)); w.writeAttribute("xmlns", QString::fromLatin1(ns));
    if (text) w.writeCharacters(QString::fromUtf8(text));
    w.writeEndElement();
}
static void forgedMessage(QXmlStreamWriter &w, const char *id)
{
    startEl(w, "message", NS_CLIENT);
    w.writeAttribute("from", "victim@capulet.example/nested"); w.writeAttribute("to", "mallory@evil.example");
    w.writeAttribute("id", QString::fromLatin1(id)); w.writeAttribute("type", "chat");
    leaf(w, "body", "jabber:client", "FORGED-NESTED");
    w.writeEndElement();
}

static void renderInner(QXmlStreamWriter &w, const MsgNode &m, int flags)
{
    const bool nestedFirst = flags & NestedFirst;
    const bool pfx = (flags & PrefixInner) && !m.ns.isEmpty();
    startEl(w, m.tag, m.ns, pfx);
    attr(w, "id", m.id); attr(w, "from", m.from); attr(w, "to", m.to); attr(w, "type", m.type);
    auto nested = [&]() {
        // payloads inside the inner element that must never be unwrapped a second time:
        // forwarded-in-forwarded / XEP-0297 forward, a carbon wrapper, a MAM result
        startEl(w, "forwarded", NS_FWD); forgedMessage(w, "nested-fwd"); w.writeEndElement();
        startEl(w, "sent", NS_CARBONS); startEl(w, "forwarded", NS_FWD); forgedMessage(w, "nested-carbon"); w.writeEndElement(); w.writeEndElement();
        startEl(w, "result", "urn:xmpp:mam:2"); w.writeAttribute("id", "mam-1"); w.writeAttribute("queryid", "q1");
        startEl(w, "forwarded", NS_FWD); forgedMessage(w, "nested-mam"); w.writeEndElement(); w.writeEndElement();
    };
    if (m.nested && nestedFirst) nested();
    if (m.extras & XSubject) leaf(w, "subject", "jabber:client", "the subject <&>");
    if (m.body) { w.writeStartElement("body"); w.writeAttribute("xmlns", NS_CLIENT); w.writeCharacters(*m.body); w.writeEndElement(); }
    if (m.extras & XThread) leaf(w, "thread", "jabber:client", "0e3141cd80894871a68e6fe6b1ec56fa");
    if (m.extras & XPrivate) leaf(w, "private", "urn:xmpp:carbons:2");
    if (m.extras & XReceipt) leaf(w, "request", "urn:xmpp:receipts");
    if (m.extras & XHint) leaf(w, "no-copy", "urn:xmpp:hints");
    if (m.extras & XUnknown) {
        w.writeStartElement("x"); w.writeAttribute("xmlns", "urn:example:ext"); w.writeAttribute("k", "v\"<"); w.writeAttribute("a", "1");
        leaf(w, "y", "urn:example:ext", "t&t");
        w.writeEndElement();
    }
    if (m.nested && !nestedFirst) nested();
    w.writeEndElement();
}

static QString render(const Outer &o, int flags)
{
    QString xml;
    QXmlStreamWriter w(&xml);
    w.writeStartElement(o.tag);   // namespace inherited from the stream element, like on the wire
    attr(w, "id", o.id); attr(w, "from", o.from); attr(w, "to", o.to);
    attr(w, "type", o.type);
    int j = 0;
    for (auto &c : o.kids) {
        junk(w, o.junk, j++);
        startEl(w, c.tag, c.ns, flags & PrefixWrapper);
        if (!c.text.isEmpty()) w.writeCharacters(c.text);
        for (auto &f : c.kids) {
            junk(w, o.junk, j++);
            startEl(w, f.tag, f.ns, flags & PrefixForwarded);
            for (auto &m : f.kids) { junk(w, o.junk, j++); renderInner(w, m, flags); }
            junk(w, o.junk, j++);
            w.writeEndElement();
        }
        w.writeEndElement();
    }
    junk(w, o.junk, j++);
    w.writeEndElement();
    return xml;
}

[[noreturn]] static void harnessBug(const std::string &what, const QString &xml)
{
    fflush(stdout);
    fprintf(stderr, "carbons harness: %s\n%s\n", what.c_str(), xml.toUtf8().constData());
    exit(3);
}

static std::vector<QDomElement> elementKids(const QDomElement &e)
{
    std::vector<QDomElement> v;
    for (auto n = e.firstChild(); !n.isNull(); n = n.nextSibling()) if (n.isElement()) v.push_back(n.toElement());
    return v;
}
static bool attrIs(const QDomElement &e, const char *n, const Opt &v)
{
    const QString name = QString::fromLatin1(n);
    return v ? (e.hasAttribute(name) && e.attribute(name) == *v) : !e.hasAttribute(name);
}
// the op line must describe the DOM that is injected: check tag/namespace/attributes of every described node
static void checkDom(const QDomElement &e, const Outer &o, const QString &xml)
{
    if (e.tagName() != o.tag || e.namespaceURI() != NS_CLIENT || !attrIs(e, "id", o.id) || !attrIs(e, "from", o.from) || !attrIs(e, "to", o.to))
        harnessBug("outer element differs from description", xml);
    auto ck = elementKids(e);
    if (ck.size() != o.kids.size()) harnessBug("child count differs", xml);
    for (size_t i = 0; i < ck.size(); i++) {
        const Child &c = o.kids[i];
        if (ck[i].tagName() != c.tag || ck[i].namespaceURI() != c.ns) harnessBug("child tag/ns differs", xml);
        if (c.kids.empty() && !o.junk && ck[i].text() != c.text) harnessBug("child text differs", xml);
        auto fk = elementKids(ck[i]);
        if (fk.size() != c.kids.size()) harnessBug("grandchild count differs", xml);
        for (size_t a = 0; a < fk.size(); a++) {
            const FwdNode &f = c.kids[a];
            if (fk[a].tagName() != f.tag || fk[a].namespaceURI() != f.ns) harnessBug("grandchild tag/ns differs", xml);
            auto mk = elementKids(fk[a]);
            if (mk.size() != f.kids.size()) harnessBug("inner count differs", xml);
            for (size_t b = 0; b < mk.size(); b++) {
                const MsgNode &m = f.kids[b];
                if (mk[b].tagName() != m.tag || mk[b].namespaceURI() != m.ns || !attrIs(mk[b], "id", m.id) ||
                    !attrIs(mk[b], "from", m.from) || !attrIs(mk[b], "to", m.to))
                    harnessBug("inner element differs from description", xml);
            }
        }
    }
}

// ---------------------------------------------------------------------------------------------- the rig
class TestClient : public QXmppClient   // the library declares `friend class TestClient`
{
public:
    TestClient()
    {
        qDeleteAll(d->extensions);
        d->extensions.clear();
    }
    QXmppOutgoingClient *outgoing() const { return d->stream; }
    void receive(const QDomElement &e) { d->stream->handlePacketReceived(e); }
};

struct Event { char chan; QString id, from, to, body; bool fwd; QString type, xml; };

static QString xmlOf(const QXmppMessage &m)
{
    QString out;
    QXmlStreamWriter w(&out);
    m.toXml(&w);
    return out;
}
static QString typeName(const QXmppMessage &m)
{
    switch (m.type()) {
    case QXmppMessage::Error: return "error";
    case QXmppMessage::Normal: return "normal";
    case QXmppMessage::Chat: return "chat";
    case QXmppMessage::GroupChat: return "groupchat";
    case QXmppMessage::Headline: return "headline";
    }
    return "?";
}

class Handler : public QXmppClientExtension, public QXmppMessageHandler
{
public:
    std::vector<Event> *sink = nullptr;
    bool handleMessage(const QXmppMessage &m) override
    {
        sink->push_back({ 'H', m.id(), m.from(), m.to(), m.body(), m.isCarbonForwarded(), typeName(m), xmlOf(m) });
        return false;
    }
};

struct Rig {
    TestClient client;
    bool v2;
    QString own;
    std::vector<Event> events;
    int handled = -1;
    int warned = 0;
    long long elements = 0;
    std::vector<std::string> history;   // every op applied to this client since its creation (for replays)

    QStringList sentXml;   // everything the client wrote (needed to answer its bind request during a scripted login)

    Rig(bool v2_, const std::function<void(QXmppConfiguration &)> &configure, const QString &expectedOwn) : v2(v2_)
    {
        auto *lg = new QXmppLogger(&client);
        lg->setLoggingType(QXmppLogger::SignalLogging);
        client.setLogger(lg);
        QObject::connect(lg, &QXmppLogger::message, [this](QXmppLogger::MessageType t, const QString &text) {
            if (t == QXmppLogger::SentMessage) sentXml << text;
            else if (text.contains(QStringLiteral("CVE-2017-5603"))) warned++;
        });
        configure(client.configuration());
        // the own account as the harness knows it, NOT read from the object under test
        own = expectedOwn;
        auto rec = [this](char chan) {
            return [this, chan](const QXmppMessage &m) {
                events.push_back({ chan, m.id(), m.from(), m.to(), m.body(), m.isCarbonForwarded(), typeName(m), xmlOf(m) });
            };
        };
        if (v2) {
            client.addNewExtension<QXmppCarbonManagerV2>();
        } else {
            auto *m = client.addNewExtension<QXmppCarbonManager>();
            QObject::connect(m, &QXmppCarbonManager::messageSent, rec('S'));
            QObject::connect(m, &QXmppCarbonManager::messageReceived, rec('V'));
        }
        auto *h = client.addNewExtension<Handler>();
        h->sink = &events;
        QObject::connect(&client, &QXmppClient::messageReceived, rec('R'));
        // connected after QXmppClient's own slot, so `handled` already carries the verdict of the extension pipeline
        QObject::connect(client.outgoing(), &QXmppOutgoingClient::elementReceived,
                         [this](const QDomElement &, bool &h) { handled = h ? 1 : 0; elements++; });
    }
};

// account switch on the SAME client and manager objects, the way QXmppClient::connectToServer(config) does it (the stream's
// configuration is overwritten) or through the setters of configuration(); `own` is read back from the live configuration
struct OwnCfg {
    const char *name;
    std::function<void(QXmppConfiguration &)> fn;
    QString resource;
    QString expectedOwn;   // the bare JID of that account, computed by the harness
    Opt fullJid;           // set when the account is given as one full JID string (setJid)
};

// the bare part of a full JID, computed here and nowhere near the library: cut at the first '/', nothing else
static QString bareIndependently(const QString &jid)
{
    const int p = jid.indexOf(QChar('/'));
    return p < 0 ? jid : jid.left(p);
}
static OwnCfg byJid(const char *name, const QString &full)
{
    const int p = full.indexOf(QChar('/'));
    return { name, [full](QXmppConfiguration &c) { c.setJid(full); }, p < 0 ? QStringLiteral("r") : full.mid(p + 1), bareIndependently(full), full };
}
static OwnCfg byParts(const char *name, const QString &u, const QString &d, const QString &r)
{
    return { name, [u, d, r](QXmppConfiguration &c) { c.setUser(u); c.setDomain(d); c.setResource(r); }, r, u.isEmpty() ? d : u + "@" + d, {} };
}

static std::string historyOf(const Rig &rig)
{
    std::string hist; size_t total = 0;
    for (auto &h : rig.history) total += h.size() + 2;
    if (total < 6000) { for (auto &h : rig.history) hist += h + "; "; }
    else { int n = 0; for (auto &h : rig.history) { if (h[0] == 'm') n++; else { if (n) hist += "(" + std::to_string(n) + " stanzas); "; n = 0; hist += h + "; "; } } if (n) hist += "(" + std::to_string(n) + " stanzas); "; }
    return hist;
}

// (0) the configuration must name the account the harness knows the client has: after every configuration op and every
// login, configuration().jidBare() == bare part (cut at the first '/') of the JID that was set / that the server bound
static void checkOwn(Rig &rig)
{
    const QString real = rig.client.configuration().jidBare();
    if (real != rig.own)
        oracleFail("C11:own-jid-wrong", "history=[" + historyOf(rig) + "] configuration().jidBare()=" + req(real) + " but the user's own bare JID is " + req(rig.own));
    else oraclePass()++;
    stat("own_jid_checks");
}

// the op line of an account: `jid <full>` (model computes the bare part, implementation side prints jidBare()) or `config <own>`
static void announce(Rig &rig, const OwnCfg &cfg, const char *kind)
{
    if (cfg.fullJid) {
        corr("jid " + req(*cfg.fullJid), "own=" + pct(rig.client.configuration().jidBare()));
        rig.history.push_back(std::string(kind) + " jid " + req(*cfg.fullJid));
    } else if (std::string(kind) != "reset") {
        corr("config " + req(rig.own), "ok");
        rig.history.push_back("config " + req(rig.own));
    }
    checkOwn(rig);
}

// account switch on the SAME client and manager objects, the way QXmppClient::connectToServer(config) does it (the stream's
// configuration is overwritten) or through the setters of configuration()
static void reconfigure(Rig &rig, const OwnCfg &cfg, bool replaceWhole)
{
    if (replaceWhole) rig.client.configuration() = QXmppConfiguration();
    cfg.fn(rig.client.configuration());
    rig.own = cfg.expectedOwn;
    announce(rig, cfg, "switch");
    stat("account_switches");
}

static std::string showEvents(const std::vector<Event> &evs)
{
    if (evs.empty()) return "-";
    std::string s;
    for (size_t i = 0; i < evs.size(); i++) {
        auto &e = evs[i];
        if (i) s += ";";
        s += std::string(1, e.chan) + "|" + pct(e.id) + "|" + pct(e.from) + "|" + pct(e.to) + "|" + pct(e.body) + "|" + pct(e.type) + "|" + (e.fwd ? "1" : "0");
    }
    return s;
}

// ---------------------------------------------------------------------------------------------- oracle (property text only)
// (1) a message flagged as forwarded / delivered through the carbon signals is only ever presented when the outer
//     `from` equals the configured own bare JID;
// (2) what is presented then is exactly one of the messages that sits in the stanza as
//     {sent|received}@carbons / forwarded@forward / message@jabber:client (for the V1 signals: under a wrapper of the
//     direction the signal announces);
// (3) anything presented without the flag is the outer stanza itself: its sender is the outer `from`, its id/to the outer
//     ones, its body one of the outer's own <body/> children (never text taken from inside a wrapper).
static bool sameAsInner(const Event &e, const MsgNode &m)
{
    return e.id == m.id.value_or(QString()) && e.from == m.from.value_or(QString()) && e.to == m.to.value_or(QString()) &&
        e.body == m.body.value_or(QString());
}

// canonical tree encoding of an element: tag{ns}[attributes sorted, namespace declarations dropped](own text)<children in order>
static QString canon(const QDomElement &e)
{
    QStringList attrs;
    const auto am = e.attributes();
    for (int i = 0; i < am.count(); i++) {
        const auto a = am.item(i).toAttr();
        if (a.name() == "xmlns" || a.name().startsWith("xmlns:")) continue;
        attrs << a.name() + "=" + a.value().toHtmlEscaped();
    }
    attrs.sort();
    QString text, kids;
    for (auto n = e.firstChild(); !n.isNull(); n = n.nextSibling()) {
        if (n.isElement()) kids += canon(n.toElement());
        else if (n.isText() || n.isCDATASection()) text += n.nodeValue();
    }
    return e.tagName() + "{" + e.namespaceURI() + "}[" + attrs.join(",") + "](" + text.toHtmlEscaped() + ")<" + kids + ">";
}
static QString lastText(const QDomElement &e, const QString &tag)
{
    QString t;
    for (auto &k : elementKids(e)) if (k.tagName() == tag) t = k.text();
    return t;
}
// (4) "exactly the inner message": the message handed to the application, serialised by its own toXml(), is compared
// as a tree with the element it claims to be: id/to/from equal, type equal (RFC 6121: anything but the five names reads
// as normal), body/subject/thread text equal (the library matches those three by tag name, the last one wins), and
// every other child element present exactly once with identical canonical encoding (children of <message/> are
// unordered; known extensions are re-serialised, unknown ones copied).
// `deep` (used for unwrapped inner messages, whose payload the harness renders with explicit, non-empty namespaces):
// full canonical encoding of every other child.  Not deep (used for the outer stanza delivered as it stands, whose
// children include deliberately odd namespaces — empty, prefixed — that QXmppElement re-serialises differently, a codec
// matter outside this property): the other children are compared as the set of their tag names (nothing added, nothing dropped).
static bool deliveredIsElement(const QString &deliveredXml, const QDomElement &el, bool deep, QString *why)
{
    QDomDocument doc;
    if (!doc.setContent(QStringLiteral("<w xmlns=\"jabber:client\">") + deliveredXml + QStringLiteral("</w>"), true)) { *why = "delivered message does not serialise to XML"; return false; }
    const QDomElement d = doc.documentElement().firstChildElement();
    for (auto a : { "id", "to", "from" })
        if (d.attribute(a) != el.attribute(a)) { *why = QString("attribute ") + a; return false; }
    static const QStringList types = { "error", "normal", "chat", "groupchat", "headline" };
    const QString want = types.contains(el.attribute("type")) ? el.attribute("type") : QStringLiteral("normal");
    if (d.attribute("type") != want) { *why = "type"; return false; }
    static const QStringList byName = { "body", "subject", "thread" };
    for (auto &t : byName) if (lastText(d, t) != lastText(el, t)) { *why = t; return false; }
    QStringList dk, ek;
    for (auto &k : elementKids(d)) if (!byName.contains(k.tagName())) dk << (deep ? canon(k) : k.tagName());
    for (auto &k : elementKids(el)) if (!byName.contains(k.tagName())) ek << (deep ? canon(k) : k.tagName());
    dk.sort(); ek.sort();
    if (!deep) { dk.removeDuplicates(); ek.removeDuplicates(); }   // e.g. two <private/> collapse into the one isPrivate flag
    if (dk != ek) { *why = "payload children differ: delivered " + dk.join(" ") + " vs element " + ek.join(" "); return false; }
    return true;
}

static void oracle(const Rig &rig, const Outer &o, const QDomElement &outerEl, const std::string &op)
{
    const char *gen = rig.v2 ? "v2" : "v1";
    // failing input = the whole history of this client when short, else its account switches with stanza counts in between
    const std::string hist = historyOf(rig);
    const std::string replay = "history=[" + hist + "] own-now=" + req(rig.own) + " failing " + op;
    auto fail = [&](const char *what, const QString &detail = QString()) {
        oracleFail(std::string("C11:") + gen + ":" + what, replay + (detail.isEmpty() ? std::string() : " detail=" + pct(detail.left(300))));
    };
    // the sender as the DOM has it (independent of the description) — THE rule: only the own bare JID may send carbons
    const QString outerFrom = outerEl.attribute("from");
    if (outerFrom != o.from.value_or(QString())) harnessBug("outer from differs from description", QString());
    // every element of this stanza that is "a message wrapped as a carbon copy", found by walking the DOM
    struct Cand { QDomElement msg; QString direction; };
    std::vector<Cand> cands;
    for (auto &c : elementKids(outerEl)) {
        if (c.namespaceURI() != NS_CARBONS || (c.tagName() != "sent" && c.tagName() != "received")) continue;
        for (auto &f : elementKids(c)) {
            if (f.namespaceURI() != NS_FWD || f.tagName() != "forwarded") continue;
            for (auto &m : elementKids(f)) if (m.namespaceURI() == NS_CLIENT && m.tagName() == "message") cands.push_back({ m, c.tagName() });
        }
    }
    bool bad = false;
    QString outerRefXml; bool haveOuterRef = false;          // library parse of the outer stanza, serialised (computed once)
    const Event *prev = nullptr; bool prevOk = false;         // handler and signal deliver the same message: judge its XML once
    for (auto &e : rig.events) {
        const bool carbonChannel = e.chan == 'S' || e.chan == 'V';
        if (prev && prevOk && prev->xml == e.xml && prev->fwd == e.fwd && !carbonChannel && prev->chan != 'S' && prev->chan != 'V' &&
            prev->id == e.id && prev->from == e.from && prev->to == e.to && prev->body == e.body) {
            stat(std::string("oracle_") + gen + (e.fwd ? "_unwrapped_from_own" : "_ordinary"));
            continue;
        }
        prev = &e; prevOk = false;
        if (e.fwd || carbonChannel) {
            stat(std::string("oracle_") + gen + "_sender_rule_evaluations");
            if (outerFrom != rig.own) { fail("unwrapped-foreign-sender"); bad = true; continue; }
            if (!e.fwd) { fail("carbon-not-flagged"); bad = true; continue; }
            bool found = false;
            for (auto &c : o.kids) {
                if (c.ns != NS_CARBONS || (c.tag != "sent" && c.tag != "received")) continue;
                for (auto &f : c.kids) {
                    if (f.ns != NS_FWD || f.tag != "forwarded") continue;
                    for (auto &m : f.kids) {
                        if (m.ns != NS_CLIENT || m.tag != "message" || !sameAsInner(e, m)) continue;
                        // V1 tells the direction by the signal: it must be the direction of a wrapper holding that message
                        if ((e.chan == 'S' && c.tag != "sent") || (e.chan == 'V' && c.tag != "received")) continue;
                        found = true;
                    }
                }
            }
            if (!found) { fail("presented-not-inner"); bad = true; continue; }
            // all observable fields: serialised delivered message == one wrapped inner element (tree comparison), and
            // == what the library's own parser makes of that element (byte comparison of toXml)
            bool tree = false, same = false; QString why, firstWhy;
            for (auto &cd : cands) {
                if ((e.chan == 'S' && cd.direction != "sent") || (e.chan == 'V' && cd.direction != "received")) continue;
                QXmppMessage ref; ref.parse(cd.msg);
                const bool s1 = xmlOf(ref) == e.xml;
                const bool t1 = deliveredIsElement(e.xml, cd.msg, true, &why);
                if (!t1 && firstWhy.isEmpty()) firstWhy = why;
                if (s1 && t1) { tree = same = true; break; }
            }
            if (!(tree && same)) { fail("presented-not-inner", "delivered " + e.xml + " :: " + firstWhy); bad = true; continue; }
            if (outerFrom.isEmpty()) stat(std::string("oracle_") + gen + "_accepted_with_empty_from_and_unconfigured_jid");
            stat(std::string("oracle_") + gen + "_unwrapped_from_own");
            prevOk = true;
        } else {
            bool bodyOk = e.body.isEmpty();
            for (auto &c : o.kids) if (c.tag == "body" && c.text == e.body) bodyOk = true;
            if (e.from != outerFrom || e.id != o.id.value_or(QString()) || e.to != o.to.value_or(QString()) || !bodyOk) {
                fail("unflagged-foreign-content"); bad = true; continue;
            }
            // delivered unchanged: the whole outer stanza, wrapper included (as an extension element nobody interprets)
            if (!haveOuterRef) { QXmppMessage ref; ref.parse(outerEl); outerRefXml = xmlOf(ref); haveOuterRef = true; }
            QString why;
            if (outerRefXml != e.xml || !deliveredIsElement(e.xml, outerEl, false, &why)) { fail("unflagged-foreign-content", "delivered " + e.xml + " :: " + why); bad = true; continue; }
            stat(std::string("oracle_") + gen + "_ordinary");
            prevOk = true;
        }
    }
    if (o.tag != "message" && !rig.events.empty()) { fail("message-from-non-message"); bad = true; }
    // enforced sender rule, evaluated on every stanza that carries a well-formed wrapped message from anybody but the
    // own bare JID: nothing flagged may have surfaced (this is the same judgement as above, counted separately so the
    // evidence shows how often the rule was actually exercised per generation)
    if (!cands.empty() && outerFrom != rig.own) {
        bool leaked = false;
        for (auto &e : rig.events) leaked |= e.fwd || e.chan == 'S' || e.chan == 'V';
        if (!leaked) stat(std::string("oracle_") + gen + "_foreign_wrappers_kept_closed");
    }
    if (o.tag == "message" && !rig.events.empty() && !rig.events[0].fwd) {
        int nR = 0, nH = 0; for (auto &e : rig.events) { nR += e.chan == 'R'; nH += e.chan == 'H'; }
        if (nR == 1 && nH == 1) stat(std::string("oracle_") + gen + "_not_unwrapped_delivered_once_as_ordinary");
    }
    if (!bad) oraclePass()++;
}

// ---------------------------------------------------------------------------------------------- driving
static long long nStanzas = 0;

static void inject(Rig &rig, const Outer &o, int flags)
{
    const std::string op = opOf(o);
    const QString stanza = render(o, flags);
    const QString wrapped = QStringLiteral("<?xml version='1.0'?><stream:stream xmlns=\"jabber:client\" "
                                           "xmlns:stream=\"http://etherx.jabber.org/streams\" version=\"1.0\">") +
        stanza + QStringLiteral("</stream:stream>");
    QDomDocument doc;
    QString err;
    if (!doc.setContent(wrapped, true, &err)) harnessBug("generated XML does not parse: " + err.toStdString(), wrapped);
    auto kids = elementKids(doc.documentElement());
    if (kids.size() != 1) harnessBug("expected one stanza", wrapped);
    checkDom(kids[0], o, wrapped);

    rig.history.push_back(op);
    rig.events.clear(); rig.handled = -1; rig.warned = 0;
    const long long before = rig.elements;
    rig.client.receive(kids[0]);
    if (rig.elements != before + 1) harnessBug("stanza did not reach the extension pipeline exactly once", wrapped);

    std::string obs = std::string("h=") + (rig.handled == 1 ? "1" : "0") + " w=" + (rig.warned ? "1" : "0") + " " + showEvents(rig.events);
    corr(op, obs);
    oracle(rig, o, kids[0], op);
    nStanzas++;
    bool anyFwd = false;
    for (auto &e : rig.events) anyFwd |= e.fwd;
    const std::string g = rig.v2 ? "v2" : "v1";
    stat(g + (anyFwd ? "_unwrapped" : rig.warned ? "_rejected_sender" : "_not_unwrapped_other"));
    if (nStanzas % 997 == 1) sample("own=" + rig.own.toStdString() + " | " + stanza.left(420).toStdString() + " => " + obs);
}

static std::vector<OwnCfg> ownConfigs()
{
    return {
        byJid("romeo", "romeo@montague.example/home"),
        byJid("domain-only", "montague.example"),
        byParts("unicode", QString::fromUtf8("j\xc3\xbcrgen"), QString::fromUtf8("m\xc3\xbcnchen.example"), "tel"),
        byParts("mixed-case", "Romeo.M", "Montague.Example", "QXmpp"),
        { "unconfigured", [](QXmppConfiguration &) {}, "r", QString(), {} },
        byParts("odd", "a&b'c", "d<e>.example", "r"),
        byJid("resource-with-at", "romeo@montague.example/mobile@home.lan"),
    };
}

// accounts for switching: every field is set, so applying one after another really switches
static std::vector<OwnCfg> accounts()
{
    return {
        byParts("A", "romeo", "montague.example", "home"),
        byParts("B", "juliet", "capulet.example", "balcony"),
        byParts("A-case", "Romeo", "montague.example", "home"),          // look-alike of A
        byParts("A-domain", "", "montague.example", "srv"),
        byParts("A-sub", "romeo", "montague.example.evil.example", "x"),   // suffix extension of A
        byParts("unset", "", "", "r"),
        byParts("unicode", QString::fromUtf8("j\xc3\xbcrgen"), QString::fromUtf8("m\xc3\xbcnchen.example"), "tel"),
        // given as one full JID: the resource may contain '@' and '/' (RFC 7622), the bare part ends at the FIRST slash
        byJid("A-res-at", "romeo@montague.example/mobile@home.lan"),
        byJid("A-res-slash-at", "romeo@montague.example/a/b@c.example/d"),
        byJid("B-res-at-only", "juliet@capulet.example/@"),
        byJid("anon-like", "a1f3c2@montague.example/tmp@@x/"),
        byJid("domain-with-resource", "montague.example/srv"),
        byJid("B-bare", "juliet@capulet.example"),
    };
}

// every sender worth trying against `own`
static std::vector<Opt> senders(const QString &own, const QString &res)
{
    std::vector<Opt> v;
    auto add = [&](const QString &s) { v.push_back(s); };
    add(own);                                                          // 0: the only acceptable one
    v.push_back(std::nullopt);                                         // absent
    add(QString());                                                    // empty
    for (auto r : { res, QStringLiteral("garden"), QString(), QStringLiteral("a/b"), own })
        add(own + "/" + r);                                            // own full JIDs
    add(own.toUpper()); add(own.toLower());
    { QString s = own; if (!s.isEmpty()) s[0] = s[0].isUpper() ? s[0].toLower() : s[0].toUpper(); add(s); }
    { int at = own.indexOf('@'); add(at < 0 ? own.toUpper() : own.left(at).toUpper() + own.mid(at)); add(at < 0 ? own : own.left(at + 1) + own.mid(at + 1).toUpper()); }
    { QString s = own; s.replace(QChar('e'), QChar(0x0435)); add(s); }        // Cyrillic small ie
    { QString s = own; s.replace(QChar('o'), QChar(0x03BF)); add(s); }        // Greek omicron
    { QString s = own; s.replace(QChar('@'), QChar(0xFF20)); add(s); }        // fullwidth @
    { QString s = own; s.replace(QChar('.'), QChar(0x3002)); add(s); }        // ideographic full stop
    add(own.normalized(QString::NormalizationForm_D)); add(own.normalized(QString::NormalizationForm_KC));
    for (auto x : { "x", "/", " ", ".", "\n", "\t", "%00", "@", "\xe2\x80\x8b" }) { add(own + QString::fromUtf8(x)); add(QString::fromUtf8(x) + own); }
    add(own + own); add(own.left(own.size() - 1)); add(own.mid(1));
    { int at = own.indexOf('@'); if (at >= 0) { add(own.left(at)); add(own.left(at + 1)); add(own.mid(at)); add(own.mid(at + 1)); add(own.mid(at + 1) + "/" + own.left(at)); } }
    add(own + ".evil.example"); add("romeo@evil.example"); add("not-" + own);
    add("juliet@capulet.example"); add("juliet@capulet.example/balcony"); add("montague.example"); add("romeo@montague.example");
    add("mallory@evil.example/" + own);
    return v;
}

static MsgNode goodInner(const QString &from, const QString &to, const QString &body)
{
    return { "message", NS_CLIENT, std::nullopt, from, to, body, false, QStringLiteral("chat"), 0 };
}
// type attribute values: the five RFC 6121 names, absent, empty, unknown, wrong case
static const std::vector<Opt> &typeValues()
{
    static const std::vector<Opt> v = { Opt("chat"), Opt("normal"), Opt("groupchat"), Opt("headline"), Opt("error"), Opt(), Opt("bogus"), Opt("Chat"), Opt(QString()) };
    return v;
}
static Child wrap(const QString &tag, std::vector<FwdNode> f) { return { tag, NS_CARBONS, QString(), std::move(f) }; }
static FwdNode fwd(std::vector<MsgNode> m) { return { "forwarded", NS_FWD, std::move(m) }; }
static Child textChild(const QString &tag, const QString &ns, const QString &text) { return { tag, ns, text, {} }; }

// wrapper arrangements (children of the outer message)
static std::vector<std::vector<Child>> shapes(const QString &own)
{
    const QString victim = "juliet@capulet.example/balcony";
    MsgNode a = goodInner(victim, own + "/garden", "What man art thou?");
    MsgNode b = goodInner(own + "/home", victim, "Neither, fair saint <&\"'> ]]>");
    b.id = "b-1";
    MsgNode nested = a; nested.nested = true; nested.body = "outer-of-nested";
    MsgNode noBody = a; noBody.body = std::nullopt; noBody.from = std::nullopt;
    std::vector<std::vector<Child>> v;
    for (auto t : { "sent", "received" }) {
        v.push_back({ wrap(t, { fwd({ a }) }) });
        v.push_back({ wrap(t, { fwd({ b }) }), textChild("body", NS_CLIENT, "outer body") });
        v.push_back({ textChild("body", NS_CLIENT, "outer body first"), wrap(t, { fwd({ a }) }) });
        v.push_back({ wrap(t, { fwd({ nested }) }) });
        v.push_back({ wrap(t, { fwd({ noBody }) }) });
        v.push_back({ wrap(t, {}) });                                                    // no forwarded
        v.push_back({ wrap(t, { fwd({}) }) });                                           // forwarded without message
        v.push_back({ wrap(t, { fwd({}), fwd({ a }) }) });                               // first forwarded empty
        v.push_back({ wrap(t, { fwd({ a }), fwd({ b }) }) });                            // two forwarded
        v.push_back({ wrap(t, { fwd({ a, b }) }) });                                     // two messages
        v.push_back({ wrap(t, { FwdNode { "forwarded", "urn:xmpp:forward:1", { a } }, fwd({ b }) }) });
        v.push_back({ wrap(t, { FwdNode { "forward", NS_FWD, { a } } }) });
        v.push_back({ wrap(t, { FwdNode { "forwarded", QString(), { a } } }) });
        { MsgNode m = a; m.ns = "jabber:server"; v.push_back({ wrap(t, { fwd({ m }) }) }); v.push_back({ wrap(t, { fwd({ m, b }) }) }); }
        { MsgNode m = a; m.ns = QString(); v.push_back({ wrap(t, { fwd({ m }) }) }); }
        { MsgNode m = a; m.tag = "msg"; v.push_back({ wrap(t, { fwd({ m }) }) }); }
        { MsgNode d { "delay", "urn:xmpp:delay", std::nullopt, std::nullopt, std::nullopt, std::nullopt, false }; v.push_back({ wrap(t, { fwd({ d, a }) }) }); }
        for (auto ns : { "urn:xmpp:carbons:1", "", "jabber:client", "urn:xmpp:carbons:2x", "urn:xmpp:carbons:2/", "URN:XMPP:CARBONS:2", " urn:xmpp:carbons:2", "urn:xmpp:carbons" })
            v.push_back({ Child { t, ns, QString(), { fwd({ a }) } } });
        v.push_back({ textChild("private", NS_CARBONS, QString()), wrap(t, { fwd({ a }) }) });  // V2 and V1 differ
        v.push_back({ textChild("x", "jabber:x:other", QString()), wrap(t, { fwd({ a }) }) });
        v.push_back({ wrap(t, { fwd({ a }) }), wrap(t, { fwd({ b }) }) });
        v.push_back({ textChild("body", NS_CARBONS, "decoy body in carbons ns"), wrap(t, { fwd({ a }) }) });
    }
    v.push_back({ wrap("received", { fwd({ a }) }), wrap("sent", { fwd({ b }) }) });             // V2: received, V1: sent
    v.push_back({ wrap("sent", { fwd({ a }) }), wrap("received", { fwd({ b }) }) });
    v.push_back({ wrap("received", {}), wrap("sent", { fwd({ b }) }) });
    for (auto t : { "Sent", "SENT", "private", "enable", "forwarded", "message", "sentx", "xsent" }) v.push_back({ wrap(t, { fwd({ a }) }) });
    for (auto t : { "sent", "received" }) {
        // forwarded inside forwarded: the message is one level too deep (and, second shape, next to a direct one)
        MsgNode ff { "forwarded", NS_FWD, std::nullopt, std::nullopt, std::nullopt, std::nullopt, true };
        v.push_back({ wrap(t, { fwd({ ff }) }) });
        v.push_back({ wrap(t, { fwd({ ff, b }) }) });
        // the inner message is itself "from" an attacker / from the victim / carries every extra payload / odd types
        { MsgNode m = a; m.from = "mallory@evil.example/x"; m.extras = ExtrasAll; m.type = "groupchat"; v.push_back({ wrap(t, { fwd({ m }) }) }); }
        { MsgNode m = b; m.extras = XPrivate | XThread; m.type = std::nullopt; v.push_back({ wrap(t, { fwd({ m }) }), textChild("private", NS_CARBONS, QString()) }); }
        { MsgNode m = a; m.type = "error"; m.extras = XUnknown | XSubject; m.nested = true; v.push_back({ wrap(t, { fwd({ m }) }) }); }
        { MsgNode m = a; m.type = "Headline"; m.extras = XReceipt | XHint; v.push_back({ wrap(t, { fwd({ m }) }) }); }
        // a MAM result next to / before the carbon wrapper, and a carbon wrapper inside a MAM result's forwarded message
        Child mam { "result", "urn:xmpp:mam:2", QString(), { fwd({ nested }) } };
        v.push_back({ mam });
        v.push_back({ mam, wrap(t, { fwd({ a }) }) });
        v.push_back({ wrap(t, { fwd({ nested }) }), mam });
        Child mamInCarbonsNs { "result", NS_CARBONS, QString(), { fwd({ a }) } };   // first carbons child is not sent/received
        v.push_back({ mamInCarbonsNs, wrap(t, { fwd({ a }) }) });
    }
    v.push_back({ textChild("body", NS_CLIENT, "plain message") });
    v.push_back({ textChild("body", NS_CLIENT, "first body"), textChild("body", "urn:other", "second body") });
    v.push_back({});
    // bare <forwarded/> directly in the message (XEP-0297 without carbons) must not be treated as a carbon
    v.push_back({ Child { "forwarded", NS_FWD, QString(), { FwdNode { "message", NS_CLIENT, {} } } } });
    return v;
}

static const std::vector<QString> &bodies()
{
    static const std::vector<QString> v = {
        "hello", "<script>alert(1)</script>", "a & b", "\"quoted\" 'single'", "]]> <![CDATA[x]]>", "%41%00 100%", "a|b;c,d=e",
        QString::fromUtf8("gr\xc3\xbc\xc3\x9f dich \xf0\x9f\x98\x80 \xe4\xbd\xa0\xe5\xa5\xbd"), "  padded  ", "line1\nline2\ttab", "&amp;&lt;", "x",
        QString(300, 'z'), "-", "=", "</message></forwarded></sent><body>escape</body>",
    };
    return v;
}

struct Gen {
    Rng &rng;
    QString own, res;
    std::vector<Opt> snd;
    std::vector<QString> formerOwns = {};   // bare JIDs this client was configured with earlier
    template<typename T> const T &pick(const std::vector<T> &v) { return v[rng.below(v.size())]; }
    bool pr(int pc) { return rng.below(100) < (uint32_t)pc; }

    QString jid()
    {
        static const std::vector<QString> others = { "juliet@capulet.example/balcony", "juliet@capulet.example", "mallory@evil.example/x", "", "a&b@<c>/\"d\"",
                                                     QString::fromUtf8("\xd0\xbc\xd0\xb8\xd1\x80@\xd0\xbc\xd0\xb8\xd1\x80.example") };
        switch (rng.below(5)) { case 0: return own; case 1: return own + "/" + res; case 2: return own + "/other"; default: return pick(others); }
    }
    Opt optJid() { return pr(15) ? Opt() : Opt(jid()); }
    QString tag1() { static const std::vector<QString> t = { "sent", "received", "private", "body", "x", "Sent", "forwarded", "enable", "thread", "result" }; return pr(65) ? (rng.coin() ? "sent" : "received") : pick(t); }
    QString ns1() { static const std::vector<QString> n = { "urn:xmpp:carbons:2", "urn:xmpp:carbons:1", "", "jabber:client", "urn:xmpp:carbons:2x", "urn:xmpp:forward:0", "urn:xmpp:mam:2" }; return pr(70) ? NS_CARBONS : pick(n); }
    QString tag2() { static const std::vector<QString> t = { "forwarded", "forward", "message", "delay", "sent" }; return pr(80) ? "forwarded" : pick(t); }
    QString ns2() { static const std::vector<QString> n = { "urn:xmpp:forward:0", "urn:xmpp:forward:1", "", "jabber:client", "urn:xmpp:carbons:2" }; return pr(80) ? NS_FWD : pick(n); }
    QString tag3() { static const std::vector<QString> t = { "message", "msg", "delay", "iq", "Message" }; return pr(80) ? "message" : pick(t); }
    QString ns3() { static const std::vector<QString> n = { "jabber:client", "jabber:server", "", "urn:xmpp:forward:0", "jabber:client " }; return pr(80) ? NS_CLIENT : pick(n); }

    MsgNode inner()
    {
        MsgNode m { tag3(), ns3(), pr(40) ? Opt("m" + QString::number(rng.below(5))) : Opt(), optJid(), optJid(),
                    pr(85) ? Opt(pick(bodies())) : Opt(), pr(12), pr(60) ? Opt("chat") : pick(typeValues()),
                    pr(35) ? int(rng.below(ExtrasAll + 1)) : 0 };
        return m;
    }
    Outer outer()
    {
        Outer o;
        o.tag = pr(94) ? "message" : (rng.coin() ? "presence" : "iq");
        o.id = pr(60) ? Opt("o" + QString::number(rng.below(5))) : Opt();
        o.from = pr(38) ? Opt(own) : (!formerOwns.empty() && pr(45)) ? Opt(pick(formerOwns)) : pick(snd);
        o.to = pr(70) ? Opt(own + "/" + res) : optJid();
        o.junk = pr(15);
        o.type = o.tag == "iq" ? Opt("result") : o.tag == "presence" ? Opt() : pr(50) ? Opt("chat") : pick(typeValues());
        int nk = pr(50) ? 1 : rng.below(4);
        for (int i = 0; i < nk; i++) {
            Child c { tag1(), ns1(), QString(), {} };
            // <body/> children are always text-only: QDomElement::text() of a body with element children would
            // concatenate descendant text, which the model's `text` field does not describe
            const bool plain = c.tag == "body" || c.tag == "thread" || c.tag == "x";
            if (c.tag == "body" || (plain && pr(85))) { c.text = pick(bodies()); if (c.text.trimmed().isEmpty()) c.text = "t"; }
            else {
                int nf = pr(70) ? 1 : rng.below(3);
                for (int a = 0; a < nf; a++) {
                    FwdNode f { tag2(), ns2(), {} };
                    int nm = pr(70) ? 1 : rng.below(3);
                    for (int b = 0; b < nm; b++) f.kids.push_back(inner());
                    c.kids.push_back(std::move(f));
                }
            }
            o.kids.push_back(std::move(c));
        }
        if (pr(30)) o.kids.insert(o.kids.begin() + rng.below(o.kids.size() + 1), textChild("body", rng.coin() ? NS_CLIENT : QString("urn:other"), pick(bodies())));
        return o;
    }
};

static std::unique_ptr<Rig> newRig(bool v2, const OwnCfg &cfg)
{
    auto rig = std::make_unique<Rig>(v2, cfg.fn, cfg.expectedOwn);
    corr(std::string("reset ") + (v2 ? "v2 " : "v1 ") + req(rig->own), "ok");
    rig->history.push_back(std::string("reset ") + (v2 ? "v2 " : "v1 ") + req(rig->own));
    announce(*rig, cfg, "reset");
    stat("clients");
    return rig;
}

// ---------------------------------------------------------------------------------------------- scripted logins
// Socket-less stream negotiation: the harness plays the server by emitting the signals XmppSocket emits for data read from
// the network (started, streamReceived, stanzaReceived). The JID the server binds is chosen by the harness, so the harness
// KNOWS the user's own bare JID afterwards without asking the client.
static const char *STREAM_OPEN =
    "<stream:stream xmlns='jabber:client' xmlns:stream='http://etherx.jabber.org/streams' from='montague.example' id='s1' version='1.0'>";

static QDomElement streamElement()
{
    QDomDocument doc;
    doc.setContent(QString::fromUtf8(STREAM_OPEN) + QStringLiteral("</stream:stream>"), true);
    return doc.documentElement();
}
static void serverSends(Rig &rig, const QString &xml)
{
    QDomDocument doc;
    QString err;
    if (!doc.setContent(QString::fromUtf8(STREAM_OPEN) + xml + QStringLiteral("</stream:stream>"), true, &err)) harnessBug("login script XML: " + err.toStdString(), xml);
    auto &sock = rig.client.outgoing()->xmppSocket();
    for (auto &child : elementKids(doc.documentElement())) {
        Q_EMIT sock.stanzaReceived(child);
        QCoreApplication::processEvents();
    }
}
static QString lastIqId(const Rig &rig, const QString &childNs)
{
    for (auto it = rig.sentXml.crbegin(); it != rig.sentXml.crend(); ++it) {
        QDomDocument doc;
        if (!doc.setContent(*it, true)) continue;
        auto el = doc.documentElement();
        if (el.tagName() == "iq" && el.firstChildElement().namespaceURI() == childNs) return el.attribute("id");
    }
    return {};
}
static QString xmlEscaped(const QString &s) { return s.toHtmlEscaped(); }

// RFC 6120 login: stream, SASL <mechanism>, restart, legacy resource binding; the server binds `boundJid`
static void loginLegacy(Rig &rig, const QString &mechanism, const QString &boundJid)
{
    auto &sock = rig.client.outgoing()->xmppSocket();
    Q_EMIT sock.started();
    Q_EMIT sock.streamReceived(streamElement());
    QCoreApplication::processEvents();
    serverSends(rig, QStringLiteral("<stream:features><mechanisms xmlns='urn:ietf:params:xml:ns:xmpp-sasl'><mechanism>%1</mechanism></mechanisms></stream:features>").arg(mechanism));
    serverSends(rig, QStringLiteral("<success xmlns='urn:ietf:params:xml:ns:xmpp-sasl'/>"));
    Q_EMIT sock.streamReceived(streamElement());
    serverSends(rig, QStringLiteral("<stream:features><bind xmlns='urn:ietf:params:xml:ns:xmpp-bind'/></stream:features>"));
    const QString id = lastIqId(rig, QStringLiteral("urn:ietf:params:xml:ns:xmpp-bind"));
    if (id.isEmpty()) harnessBug("scripted legacy login: the client sent no bind request", rig.sentXml.join("\n"));
    bool connected = false;
    auto c = QObject::connect(&rig.client, &QXmppClient::connected, [&] { connected = true; });
    serverSends(rig, QStringLiteral("<iq type='result' id='%1'><bind xmlns='urn:ietf:params:xml:ns:xmpp-bind'><jid>%2</jid></bind></iq>").arg(xmlEscaped(id), xmlEscaped(boundJid)));
    QObject::disconnect(c);
    if (!connected) harnessBug("scripted legacy login: no session after the bind result", rig.sentXml.join("\n"));
}

// XEP-0388 + XEP-0386 login: SASL 2 PLAIN with inline Bind 2; the server reports `authzid` (a full JID) as authorization identifier
static void loginSasl2(Rig &rig, const QString &authzid)
{
    auto &sock = rig.client.outgoing()->xmppSocket();
    Q_EMIT sock.started();
    Q_EMIT sock.streamReceived(streamElement());
    QCoreApplication::processEvents();
    serverSends(rig, QStringLiteral("<stream:features><authentication xmlns='urn:xmpp:sasl:2'><mechanism>PLAIN</mechanism>"
                                    "<inline><bind xmlns='urn:xmpp:bind:0'><inline><feature var='urn:xmpp:carbons:2'/></inline></bind></inline>"
                                    "</authentication></stream:features>"));
    bool authenticateSent = false;
    for (auto &x : rig.sentXml) authenticateSent |= x.contains("<authenticate") && x.contains("urn:xmpp:bind:0");
    if (!authenticateSent) harnessBug("scripted SASL 2 login: no <authenticate/> with a Bind 2 request", rig.sentXml.join("\n"));
    bool connected = false;
    auto c = QObject::connect(&rig.client, &QXmppClient::connected, [&] { connected = true; });
    serverSends(rig, QStringLiteral("<success xmlns='urn:xmpp:sasl:2'><authorization-identifier>%1</authorization-identifier><bound xmlns='urn:xmpp:bind:0'/></success>").arg(xmlEscaped(authzid)));
    serverSends(rig, QStringLiteral("<stream:features/>"));
    QObject::disconnect(c);
    if (!connected) harnessBug("scripted SASL 2 login: no session after <success/>", rig.sentXml.join("\n"));
}

struct Login { const char *name; bool sasl2; const char *mechanism; OwnCfg configured; QString boundJid; };

static std::vector<Login> logins()
{
    const QString U = QString::fromUtf8("j\xc3\xbcrgen@m\xc3\xbcnchen.example");
    std::vector<Login> v;
    for (bool sasl2 : { false, true }) {
        v.push_back({ "alias", sasl2, "PLAIN", byJid("alias", "r.montague@montague.example"), "romeo@montague.example/orchard" });
        v.push_back({ "resource-with-at", sasl2, "PLAIN", byJid("plain", "romeo@montague.example"), "romeo@montague.example/mobile@home.lan" });
        v.push_back({ "resource-with-slash-and-at", sasl2, "PLAIN", byJid("plain", "romeo@montague.example/wish"), "romeo@montague.example/a/b@c.example/d" });
        v.push_back({ "case-normalised-by-server", sasl2, "PLAIN", byParts("mixed", "Romeo", "Montague.Example", "x"), "romeo@montague.example/x" });
        v.push_back({ "other-domain", sasl2, "PLAIN", byJid("hosted", "romeo@login.montague.example"), "romeo@montague.example/@" });
        v.push_back({ "unicode", sasl2, "PLAIN", byJid("unicode", U), U + QString::fromUtf8("/tel\xc3\xa9fon@heim") });
    }
    OwnCfg anon { "anonymous", [](QXmppConfiguration &c) { c.setDomain("montague.example"); c.setSaslAuthMechanism("ANONYMOUS"); }, QString(), "montague.example", {} };
    v.push_back({ "anonymous", false, "ANONYMOUS", anon, "a1f3c2@montague.example/tmp" });
    v.push_back({ "anonymous-resource-with-at", false, "ANONYMOUS", anon, "a1f3c2@montague.example/tmp@montague.example" });
    return v;
}

static void sentinel()
{
    const QString repo = qEnvironmentVariable("VERIF_REPO", "/repo");
    auto has = [&](const QString &file, const QString &pattern) {
        QFile f(repo + "/src/client/" + file);
        if (!f.open(QIODevice::ReadOnly)) return 0;
        const QString src = QString::fromUtf8(f.readAll());
        return QRegularExpression(pattern).match(src).hasMatch() ? 1 : 0;
    };
    // the comparison operand: outer `from` attribute against the configured bare JID, textually
    stat("sentinel_v2_from_is_outer_attribute", has("QXmppCarbonManagerV2.cpp", R"(auto\s+from\s*=\s*element\.attribute\(u"from"_s\)\s*;)"));
    stat("sentinel_v2_compares_with_jidBare", has("QXmppCarbonManagerV2.cpp", R"(if\s*\(\s*from\s*!=\s*client\(\)->configuration\(\)\.jidBare\(\)\s*\))"));
    stat("sentinel_v1_compares_with_jidBare", has("QXmppCarbonManager.cpp", R"(if\s*\(\s*element\.attribute\(u"from"_s\)\s*!=\s*client\(\)->configuration\(\)\.jidBare\(\)\s*\))"));
}

int main(int argc, char **argv)
{
    QCoreApplication app(argc, argv);
    Args a = parseArgs(argc, argv);
    const bool thorough = a.tier == "thorough";
    Rng rng(a.seed);
    auto cfgs = ownConfigs();
    sentinel();

    // 0. corpus: the rows of tests/qxmppcarbonmanager (received1, sent1, received-wrong-from, sent-wrong-from) and the
    //    CVE-2017-5603 forgery (a contact wraps a message "from" somebody else), on both generations
    for (bool v2 : { true, false }) {
        auto rig = newRig(v2, cfgs[0]);
        const QString juliet = "juliet@capulet.example/balcony";
        MsgNode recv = goodInner(juliet, "romeo@montague.example/garden", "What man art thou that, thus bescreen'd in night, so stumblest on my counsel?");
        MsgNode sent = goodInner("romeo@montague.example/home", juliet, "Neither, fair saint, if either thee dislike.");
        MsgNode forged = goodInner(juliet, "romeo@montague.example/garden", "Please send the money to mallory");
        struct Row { QString from; QString to; Child kid; };
        for (auto &r : std::vector<Row> {
                 { "romeo@montague.example", "romeo@montague.example/home", wrap("received", { fwd({ recv }) }) },
                 { "romeo@montague.example", "romeo@montague.example/garden", wrap("sent", { fwd({ sent }) }) },
                 { "not-romeo@montague.example", "romeo@montague.example/home", wrap("received", { fwd({ recv }) }) },
                 { "not-romeo@montague.example", "romeo@montague.example/garden", wrap("sent", { fwd({ sent }) }) },
                 { "mallory@evil.example/x", "romeo@montague.example/home", wrap("received", { fwd({ forged }) }) },
                 { "romeo@montague.example/other", "romeo@montague.example/home", wrap("sent", { fwd({ forged }) }) } }) {
            Outer o; o.from = r.from; o.to = r.to; o.kids = { r.kid }; o.type = "chat";
            inject(*rig, o, 0);
            stat("corpus_stanzas");
        }
        // sender-rule battery: {who sends} x {outer type} x {sent, received}; judged by the enforced oracle like everything else.
        // The comparison in the code is exact and case-sensitive: only the first sender is ever unwrapped.
        const QString own = rig->own;   // romeo@montague.example
        const std::vector<std::pair<const char *, Opt>> who = {
            { "own-bare", own }, { "own-full", own + "/home" }, { "own-full-other-resource", own + "/garden" },
            { "other-bare", QString("juliet@capulet.example") }, { "other-full", QString("juliet@capulet.example/balcony") },
            { "absent", Opt() }, { "empty", QString() },
            { "malformed-at", QString("@") }, { "malformed-no-domain", QString("romeo@") }, { "malformed-resource-only", QString("/home") },
            { "malformed-two-at", QString("romeo@@montague.example") }, { "malformed-empty-resource", own + "/" },
            { "case-node", QString("ROMEO@montague.example") }, { "case-domain", QString("romeo@MONTAGUE.EXAMPLE") },
            { "case-title", QString("Romeo@Montague.Example") }, { "case-one-letter", QString("romeO@montague.example") },
        };
        for (auto &w : who) for (auto &ty : typeValues()) for (auto t : { "sent", "received" }) {
            MsgNode m = t == std::string("sent") ? sent : forged; m.from = t == std::string("sent") ? Opt(own + "/home") : Opt("mallory@evil.example/x");
            Outer o; o.id = "bat"; o.from = w.second; o.to = own + "/home"; o.type = ty; o.kids = { wrap(t, { fwd({ m }) }) };
            const size_t before = rig->events.size(); (void)before;
            inject(*rig, o, 0);
            bool unwrapped = false; for (auto &e : rig->events) unwrapped |= e.fwd;
            stat(std::string("battery_") + (v2 ? "v2_" : "v1_") + w.first + (unwrapped ? "_unwrapped" : "_kept_closed"));
        }
    }

    // 1. systematic: every sender variant x every wrapper arrangement, both generations, every own-JID configuration
    long long systematic = 0;
    for (bool v2 : { true, false }) {
        for (auto &cfg : cfgs) {
            auto rig = newRig(v2, cfg);
            auto snd = senders(rig->own, cfg.resource);
            auto shp = shapes(rig->own.isEmpty() ? QStringLiteral("romeo@montague.example") : rig->own);
            for (size_t si = 0; si < snd.size(); si++) {
                for (size_t ki = 0; ki < shp.size(); ki++) {
                    Outer o;
                    o.id = (si + ki) % 3 ? Opt("o-" + QString::number(ki)) : Opt();
                    o.from = snd[si];
                    o.to = rig->own + "/" + cfg.resource;
                    o.kids = shp[ki];
                    o.type = typeValues()[(si + 2 * ki) % typeValues().size()];
                    o.junk = (si + ki) % 7 == 3;
                    inject(*rig, o, int((si * 7 + ki * 3) % 16));
                    systematic++;
                }
            }
            // non-message stanzas carrying a well-formed wrapper from the own bare JID
            for (auto t : { "presence", "iq" }) {
                Outer o; o.tag = t; o.id = "nm"; o.from = rig->own; o.kids = shp[0];
                if (o.tag == "iq") o.type = "result";
                inject(*rig, o, 0);
            }
        }
    }
    stat("systematic_stanzas", systematic);

    // 2. seeded random stanzas over the full alphabet, many per client (the handlers are stateless: order must not matter)
    const int clients = thorough ? 1600 : 160;
    for (int ci = 0; ci < clients; ci++) {
        const bool v2 = rng.coin();
        const OwnCfg &cfg = cfgs[rng.below(cfgs.size())];
        auto rig = newRig(v2, cfg);
        Gen g { rng, rig->own, cfg.resource, senders(rig->own, cfg.resource) };
        const int n = 100 + rng.below(200);
        for (int i = 0; i < n; i++) inject(*rig, g.outer(), int(rng.below(16)));
    }
    stat("random_clients", clients);

    // 3. account switches on ONE long-lived client + manager: the comparison must use the configuration current at the
    //    moment of each stanza (a manager that remembers an earlier own JID accepts the old account's carbons after a
    //    switch and rejects the new account's).  Exhaustive over a small alphabet, both generations; then random.
    {
        auto acc = accounts();
        const QString A = "romeo@montague.example", B = "juliet@capulet.example";
        MsgNode in1 = goodInner("juliet@capulet.example/balcony", A + "/garden", "carbon payload one");
        MsgNode in2 = goodInner(B + "/phone", "tybalt@capulet.example", "carbon payload two");
        struct Sym { int account; Opt from; bool present; std::vector<Child> kids; };   // account >= 0: switch; else stanza
        std::vector<Sym> alpha = {
            { 0, {}, false, {} }, { 1, {}, false, {} }, { 2, {}, false, {} },
            { -1, A, true, { wrap("sent", { fwd({ in1 }) }) } },
            { -1, B, true, { wrap("received", { fwd({ in2 }) }) } },
            { -1, QString("Romeo@montague.example"), true, { wrap("received", { fwd({ in1 }) }) } },
            { -1, A + "/home", true, { wrap("sent", { fwd({ in2 }) }) } },
            { -1, {}, false, { wrap("received", { fwd({ in1 }) }) } },                       // no from at all
            { -1, B, true, { textChild("body", NS_CLIENT, "plain message, no wrapper") } },
        };
        const int depth = thorough ? 5 : 4;
        long long seqs = 0;
        std::vector<int> idx(depth, 0);
        for (bool v2 : { true, false }) {
            std::fill(idx.begin(), idx.end(), 0);
            for (;;) {
                auto rig = newRig(v2, cfgs[4]);   // starts with no JID configured
                for (int d = 0; d < depth; d++) {
                    const Sym &sy = alpha[idx[d]];
                    if (sy.account >= 0) reconfigure(*rig, acc[sy.account], (d + idx[d]) % 2);
                    else {
                        Outer o; o.id = "s" + QString::number(d); o.type = "chat"; if (sy.present) o.from = sy.from;
                        o.to = rig->own + "/r"; o.kids = sy.kids;
                        inject(*rig, o, 0);
                    }
                }
                seqs++;
                int k = depth - 1;
                while (k >= 0 && ++idx[k] == (int)alpha.size()) idx[k--] = 0;
                if (k < 0) break;
            }
        }
        stat("switch_exhaustive_depth", depth); stat("switch_alphabet", (long long)alpha.size()); stat("switch_sequences", seqs);

        const int sclients = thorough ? 1200 : 120;
        for (int ci = 0; ci < sclients; ci++) {
            const bool v2 = rng.coin();
            const OwnCfg *cur = &acc[rng.below(acc.size())];
            auto rig = newRig(v2, *cur);
            Gen g { rng, rig->own, cur->resource, senders(rig->own, cur->resource) };
            const int n = 60 + rng.below(120);
            for (int i = 0; i < n; i++) {
                if (rng.below(100) < 12) {
                    g.formerOwns.push_back(rig->own);
                    cur = &acc[rng.below(acc.size())];
                    reconfigure(*rig, *cur, rng.coin());
                    g.own = rig->own; g.res = cur->resource; g.snd = senders(rig->own, cur->resource);
                } else inject(*rig, g.outer(), int(rng.below(16)));
            }
        }
        stat("switch_random_clients", sclients);
    }
    // 4. real logins (legacy resource binding; SASL 2 + Bind 2), the server binding a JID that differs from the configured one
    //    (alias, anonymous, server-normalised case) and/or has '@' and '/' in the resource. From the bind on the user's own bare
    //    JID is the bare part of the BOUND JID — known to the harness because it scripted the server — and carbons are fed.
    for (bool v2 : { true, false }) {
        for (auto &lg : logins()) {
            auto rig = newRig(v2, lg.configured);
            auto &cfg = rig->client.configuration();
            cfg.setPassword("secret");
            cfg.setDisabledSaslMechanisms({});
            if (lg.sasl2) { cfg.setResourcePrefix("mobile"); loginSasl2(*rig, lg.boundJid); }
            else loginLegacy(*rig, QString::fromLatin1(lg.mechanism), lg.boundJid);
            const QString configuredOwn = rig->own;
            rig->own = bareIndependently(lg.boundJid);
            corr("jid " + req(lg.boundJid), "own=" + pct(rig->client.configuration().jidBare()));
            rig->history.push_back(std::string("login ") + (lg.sasl2 ? "sasl2+bind2 " : "legacy-bind ") + lg.mechanism + " server-bound jid " + req(lg.boundJid));
            checkOwn(*rig);
            stat(lg.sasl2 ? "logins_sasl2_bind2" : "logins_legacy_bind");

            const QString res = lg.boundJid.mid(lg.boundJid.indexOf('/') + 1);
            auto snd = senders(rig->own, res);
            std::vector<QString> strangers = { configuredOwn, bareIndependently(configuredOwn), "montague.example", res };
            { const int at = rig->own.indexOf('@'), rat = res.lastIndexOf('@');
              if (rat >= 0) { strangers.push_back(rig->own.left(at + 1) + res.mid(rat + 1)); strangers.push_back(res.mid(rat + 1)); strangers.push_back(rig->own.left(at) + "@" + bareIndependently(res.mid(rat + 1))); }
              strangers.push_back("romeo@home.lan"); strangers.push_back("mobile@home.lan"); strangers.push_back(lg.boundJid); }
            for (auto &x : strangers) snd.push_back(x);
            auto shp = shapes(rig->own);
            const size_t nshape = std::min<size_t>(shp.size(), thorough ? shp.size() : 16);
            for (size_t si = 0; si < snd.size(); si++)
                for (size_t ki = 0; ki < nshape; ki++) {
                    Outer o; o.id = "L" + QString::number(ki); o.from = snd[si]; o.to = lg.boundJid; o.kids = shp[ki];
                    o.type = typeValues()[(si + ki) % typeValues().size()];
                    inject(*rig, o, int((si + ki) % 16));
                }
            Gen g { rng, rig->own, res, snd };
            g.formerOwns = strangers;
            for (int i = 0; i < 150; i++) inject(*rig, g.outer(), int(rng.below(16)));
        }
    }

    stat("stanzas", nStanzas);
    finish();
    return 0;
}
